#!/usr/bin/env python3
"""Regenerates /verif/MANIFEST.json from the table below (kept next to the checks so that the
manifest, the claimed levels and the not_applicable list stay in step)."""
import json
import os

VERIF = os.path.dirname(os.path.dirname(os.path.abspath(__file__)))

TECH = "bounded symbolic execution of the real code (symx: z3-backed proxies) + SMT (z3 QF_UFBV); counterexamples replayed on the unmodified code"

CHECKS = {
    "C01": dict(
        category="model_checking",
        text="One inductive step of the real RiscvSimulation.step() (single-cycle) from an arbitrary state: all 32 registers, the whole data memory, pc, register indices and every encodable immediate are symbolic; z3 decides every path for all values against an independent ISA reference (46 instruction classes, ecall table, fault clause, termination clause). Induction over steps gives programs of any length.",
        design_ref="5/C01",
        note="Trusted: CPython renderers, z3, fixedint model (validated each run), refs/riscv_ref.py, lemma L-FP. Bounds: ecall strings <= 3 chars; pc compared modulo 2^32.",
    ),
}

CHECKS["C06"] = dict(
    category="model_checking",
    text="One inductive step of the real ToySimulation.step() from an arbitrary TOY state (accumulator, pc, entire 4096x16 memory, any 16-bit word in the instruction register, last-instruction address all symbolic) against refs/toy_ref: accumulator, memory, pc, halt condition, decode of the executed and of the fetched word, cycle/instruction/branch counters. Self-modification is covered because the fetch reads the post-store memory; induction gives programs of any length.",
    design_ref="5/C06",
    note="Trusted: z3, fixedint model (validated each run), refs/toy_ref.py. Bound: one step from an arbitrary state (inductive).",
)
CHECKS["C18"] = dict(
    category="model_checking",
    text="One inductive step of the real Memory.read_*/write_* (RISC-V and TOY configurations) from an arbitrary store (presence and content of every cell symbolic), arbitrary address in [-2^33,2^33] (unaligned, negative, >= 2^32) and value: little-endian composition, modulo-2^32 addressing, MemoryAddressError exactly when a touched address is outside the range, nothing changes for accesses entirely outside, wrong-width functions refuse; plus write-then-read at overlapping addresses.",
    design_ref="5/C18",
    note="Trusted: z3, fixedint model, the sequential little-endian reference inside checks/c18.py. Induction over operations gives all histories.",
)
CHECKS["C20"] = dict(
    category="model_checking",
    text="From one arbitrary TOY state, step(), first_cycle_step()+second_cycle_step() and single_step()x2 are run on three copies; z3 proves the complete snapshots equal (state, counters, visualisation values, svg update list, and - on a small unified memory - memory-table rows and register representations). Out-of-order calls raise StepSequenceError and leave the snapshot unchanged; all drivers are inert on done states.",
    design_ref="5/C20",
    note="Trusted: z3, fixedint model, CPython renderers (placeholders). Bounds: one instruction boundary from an arbitrary state (inductive); table clause on a 2-word (quick) / 4-word (thorough) memory with concrete opcodes per cell.",
)

PLANNED = {}

ALL = ["C%02d" % i for i in range(1, 21)]


def main():
    checks = []
    for pid in ALL:
        if pid not in CHECKS:
            continue
        c = CHECKS[pid]
        checks.append(
            {
                "property_id": pid,
                "quick_cmd": "sh /verif/bin/check %s --tier quick" % pid,
                "thorough_cmd": "sh /verif/bin/check %s --tier thorough" % pid,
                "evidence_file": "/verif/evidence/%s.json" % pid,
                "replay_cmd_template": "sh /verif/bin/check %s --replay {path}" % pid,
                "engine": "symx",
                "level_claimed": {"category": c["category"], "text": c["text"], "design_ref": c["design_ref"]},
                "level_note": c["note"],
                "technique": c.get("technique", TECH),
            }
        )
    na = [
        {"property_id": pid, "reason": PLANNED.get(pid, "check not built yet (planned: DESIGN.md 5/%s)" % pid)}
        for pid in ALL
        if pid not in CHECKS
    ]
    m = {
        "version": 1,
        "setup_cmd": "sh /verif/bin/setup.sh",
        "hooks": {
            "guard": "ARCHSIM_VERIF",
            "enable": "no source hooks: checks rebind builtins and replace the fixedint dependency inside their own process (ARCHSIM_VERIF=1 is exported by bin/check but no repository code reads it)",
            "baseline_off_cmd": "cd /repo && /venv/bin/python -m pytest -q -p no:cacheprovider --timeout=900",
            "source_commits": [],
            "add_only": True,
        },
        "engines": [
            {
                "name": "symx",
                "path": "/verif/symx",
                "serves_properties": sorted(CHECKS),
                "kind_free_text": "purpose-built symbolic executor: runs the real repository code on z3-backed int/fixedint/container proxies, forks eagerly, discharges verification conditions with z3; concrete oracle process replays sampled paths and every counterexample on the unmodified code",
            }
        ],
        "checks": checks,
        "notes": "See DESIGN.md. Exit 2 of a check means inconclusive (solver unknown, unsupported construct, encoding mismatch, dead canary) and is never reported as a pass.",
        "not_applicable": na,
    }
    with open(os.path.join(VERIF, "MANIFEST.json"), "w") as f:
        json.dump(m, f, indent=1)
        f.write("\n")


if __name__ == "__main__":
    main()
