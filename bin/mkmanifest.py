#!/usr/bin/env python3
"""Regenerates /verif/MANIFEST.json from the table below (kept next to the checks so that the
manifest, the claimed levels and the not_applicable list stay in step)."""
import json
import os

VERIF = os.path.dirname(os.path.dirname(os.path.abspath(__file__)))

TECH = "bounded symbolic execution of the real code (symx: z3-backed proxies) + SMT (z3 QF_UFBV); counterexamples replayed on the unmodified code"

CHECKS = {
    "C01": dict(
        category="model_checking",
        text="One inductive step of the real RiscvSimulation.step() (single-cycle) from an arbitrary state: all 32 registers, the whole data memory, pc, register indices and every encodable immediate are symbolic; z3 decides every path for all values against an independent ISA reference (46 instruction classes, ecall table, fault clause, termination clause). Induction over steps gives programs of any length.",
        design_ref="5/C01",
        note="Trusted: CPython renderers, z3, fixedint model (validated each run), refs/riscv_ref.py, lemma L-FP. Bounds: ecall strings <= 3 chars; pc compared modulo 2^32.",
    ),
}

CHECKS["C06"] = dict(
    category="model_checking",
    text="One inductive step of the real ToySimulation.step() from an arbitrary TOY state (accumulator, pc, entire 4096x16 memory, any 16-bit word in the instruction register, last-instruction address all symbolic) against refs/toy_ref: accumulator, memory, pc, halt condition, decode of the executed and of the fetched word, cycle/instruction/branch counters. Self-modification is covered because the fetch reads the post-store memory; induction gives programs of any length.",
    design_ref="5/C06",
    note="Trusted: z3, fixedint model (validated each run), refs/toy_ref.py. Bound: one step from an arbitrary state (inductive).",
)
CHECKS["C18"] = dict(
    category="model_checking",
    text="One inductive step of the real Memory.read_*/write_* (RISC-V and TOY configurations) from an arbitrary store (presence and content of every cell symbolic), arbitrary address in [-2^33,2^33] (unaligned, negative, >= 2^32) and value: little-endian composition, modulo-2^32 addressing, MemoryAddressError exactly when a touched address is outside the range, nothing changes for accesses entirely outside, wrong-width functions refuse; plus write-then-read at overlapping addresses.",
    design_ref="5/C18",
    note="Trusted: z3, fixedint model, the sequential little-endian reference inside checks/c18.py. Induction over operations gives all histories.",
)
CHECKS["C20"] = dict(
    category="model_checking",
    text="From one arbitrary TOY state, step(), first_cycle_step()+second_cycle_step() and single_step()x2 are run on three copies; z3 proves the complete snapshots equal (state, counters, visualisation values, svg update list, and - on a small unified memory - memory-table rows and register representations). Out-of-order calls raise StepSequenceError and leave the snapshot unchanged; all drivers are inert on done states.",
    design_ref="5/C20",
    note="Trusted: z3, fixedint model, CPython renderers (placeholders). Bounds: one instruction boundary from an arbitrary state (inductive); table clause on a 2-word (quick) / 4-word (thorough) memory with concrete opcodes per cell.",
)


MC = "model_checking"
CHECKS["C02"] = dict(category=MC, design_ref="5/C02",
    text="Bounded symbolic programs: every instruction class as a one-instruction program (full operand space) and all instruction sequences up to a length bound over a hazard-complete 14-instruction alphabet are run to completion by the real five-stage and single-cycle simulations on the same symbolic initial state (register indices, immediates incl. branch/jump displacements, register and memory contents all symbolic, so every RAW/WAW distance, x0 pattern, branch direction and target is a path). z3 proves equal registers, memory, output, exit code, retired order, instruction/branch/call counts, termination and identical fault reports on every path.",
    note="Oracle = the repository's single-cycle mode (tied to the ISA by C01). Bounds: L<=2 complete (+ sampled L=3) quick; L=3 reduced alphabet complete + rest best-effort thorough; K=2L+2 executed instructions, <=2 dynamic ecalls, ecall strings bounded; paths whose branch feasibility z3 cannot decide in time are cut and counted.")
CHECKS["C03"] = dict(category=MC, design_ref="5/C03",
    text="One inductive step of the real WriteBack/WriteThroughMemorySystem read_*/write_* from an arbitrary cache state satisfying the representation invariant (valid/dirty bits, tags, block words, LRU permutation / PLRU bits, counters, miss penalty and the whole lower memory symbolic; address, value and flags symbolic): reads return the flat (logical) value, writes update exactly the written bytes, word-crossing / out-of-range accesses are rejected and leave the logical contents unchanged, and the invariant is re-established - hence histories of any length. Plus 3-operation histories from a reset cache with symbolic addresses/values (independent of the invariant).",
    note="Trusted: z3, fixedint model, the invariant and logical-memory abstraction in checks/cachestep.py. Bounds: geometries index/block bits <=1, ways <=2 (quick), up to 2/2/4 ways (thorough); direct-to-memory preload writes only claimed to bypass counters.")
CHECKS["C04"] = dict(category=MC, design_ref="5/C04",
    text="The real load_program assembles program texts enumerated from 17 line shapes (real and pseudo instructions, one label at every position stand-alone or in-line - also on expanding pseudos and at the end -, label / label+offset / numeric targets, with/without directives) whose numeric literals are all symbolic (sentinel literals mapped back by the rebound int()); the instruction memory is compared field by field, for all values, with an independent reference assembler. Register-name, mnemonic-case and number-base spelling sets and comment/blank/indent decorations are enumerated completely.",
    note="Trusted: pyparsing on a concrete line, sentinel-literal stand-in (base checked), checks/asm.py reference. Bounds: <=2 instruction lines complete (quick), sampled 3 lines (thorough); texts outside the shapes are outside.")
CHECKS["C05"] = dict(category=MC, design_ref="5/C05",
    text="li rd, c for all c in [-2^33, 2^33] through the real load_program and real execution (6 paths: sign x expansion length x carry) leaves c mod 2^32; data-segment layouts over all declaration sequences (byte/half/word/string/zero) with symbolic element values, .zero sizes and indices are compared byte for byte with the reference layout, name[i] in la/load/store pseudo-instructions is executed and checked (indices up to 2^18: every lui/addi carry case), either segment order; the documented example is read from the help page of the working tree and must produce the values its own comments document; the same layouts loaded into simulations with a write-back / write-through data cache must read back identically through the memory system.",
    note="Trusted: as C04. Bounds: <=2 (quick) / 3 (thorough) declarations; decimal spellings (other bases lexically in C04/C15).")
CHECKS["C07"] = dict(category=MC, design_ref="5/C07",
    text="On every path of the bounded symbolic programs of C02 the cycle in which each instruction retires and the final cycle counter of the real five-stage simulation equal refs/pipe_ref.Timing (in-order recurrences written from the documented schedule: one fetch per cycle, write-before-read, two-bubble decode interlock against EX/MEM, control resolved in MEM, ecall drain); n mutually independent instructions take n+4 cycles (n<=6/8, symbolic registers constrained independent); penalty clause: five-stage runs with an instruction and a data cache and symbolic miss penalties advance the cycle counter in every step by exactly 1 + penalty x counted misses of that step (uncounted reads such as print-string charge nothing).",
    note="Trusted: my reading of the documented schedule (refs/pipe_ref.py, stated in DESIGN 5/C07). Bounds as C02.")
CHECKS["C08"] = dict(category=MC, design_ref="5/C08",
    text="The real five-stage simulation with hazard detection off is compared on bounded symbolic programs with an executable reference of an interlock-free pipeline (every instruction reads its sources in its last decode cycle and sees exactly the writes whose write-back cycle is <= that cycle; ecall drains; control in MEM): registers, memory, output, exit code, retire order and cycles, no decode-stage stall; nop-padded programs agree with single-cycle mode.",
    note="Trusted: refs/pipe_ref.NoInterlockMachine + refs/riscv_ref. Bounds as C02 (quick sample excludes the heaviest L=3 skeletons).")
CHECKS["C09"] = dict(category=MC, design_ref="5/C09",
    text="Same inductive cache step as C03 with the accounting claims: hit verdict = residency in the pre-state, accesses/hits/last-hit flag/miss penalty (symbolic) for counted accesses, all four unchanged for uncounted reads and direct writes, and the post-state (which way holds the block, other ways/sets untouched, victim by the configured policy, LRU/PLRU update, no allocation on write-through write misses) equals a reference set-associative cache; plus 3-operation histories from reset and the program-level clause.",
    note="Trusted: reference cache formulas in checks/cachestep.py. Rejected accesses outside the claim. Program clause: bounded symbolic programs (all 8 load/store classes alone, L<=2 skeletons with memory instructions) run uncached, cached single-cycle and cached five-stage: one access per executed load/store, identical counters in both modes, cycles advance by 1 + penalty x misses per step; every cache gets exactly its configured geometry/policy/penalty (config harness).")
CHECKS["C10"] = dict(category=MC, design_ref="5/C10",
    text="One inductive step of the real LRU / PLRU objects from an arbitrary policy state: LRU order list = any permutation sorted by ghost last-access timestamps (uninterpreted), access() keeps it sorted with the accessed block newest, victim has the minimal timestamp, get_repr() is the age rank; PLRU with arbitrary bits: victim follows the tree, access points every bit on the path away, off-path bits unchanged; access is idempotent. Fill clause: from an arbitrary CacheSet state inside the real memory system (valid bits, tags, policy state symbolic) a miss displaces exactly the way the policy names, every other way keeps its block and the policy is told about that way. CrossHair 0.0.110 re-checks 12 PEP316 postconditions on the real classes (associativity <= 4) as an independent engine.",
    note="Bounds: LRU n<=6 (access) / <=4 (repr) quick, 8/6 thorough; PLRU n in {1,2,4,8}; fill clause on single-set caches with 2 and 4 ways.")
CHECKS["C11"] = dict(category=MC, design_ref="5/C11",
    text="One read_instruction() of the real InstructionMemoryCacheSystem from an arbitrary invariant state (valid bits, tags, replacement state, counters, penalty symbolic): returns the instruction at the address, counters/penalty/placement/victim/policy update equal the reference, invariant preserved; reset() from an arbitrary state equals a fresh system; bounded symbolic programs in both modes with an instruction cache: results unchanged, accesses = fetches (one per executed instruction in single-cycle mode), hits = trace-driven reference cache, every step advances cycles by 1 + penalty x misses; load A, run, load B leaves the instruction cache as after a fresh load of B; each cache is built with its own configured geometry/policy/penalty.",
    note="Bounds: 5-instruction program for the step harness, geometries <= (1,1,2); programs L<=2 sample + 4 loop skeletons; reload/config clauses on enumerated concrete configurations.")
CHECKS["C12"] = dict(category=MC, design_ref="5/C12",
    text="Same inductive cache step as C03 with the backing-memory claims: write-through - backing memory equals the logical contents at every address and every resident word equals its backing word; write-back - backing memory differs from the logical contents only where the block is resident and the logical contents are exactly the flat update across every eviction path (no written value lost); plus 3-operation histories from reset.",
    note="Trusted: as C03.")
CHECKS["C13"] = dict(category=MC, design_ref="5/C13",
    text="On bounded symbolic programs (both modes): every step() returns `not is_done()` evaluated afterwards, run() reaches a deep snapshot equal to stepping until done, further step()/run() on done states (incl. mid-run states with an exit code set) change nothing; same for TOY from an arbitrary state; empty / comment-only / directive-only texts are done immediately; load(A);load(B) equals load(B) on a fresh simulation for all ordered pairs of a text list incl. texts failing at every parser stage, with and without caches.",
    note="Bounds: all one-instruction programs and light L=2 skeletons (quick); reload clause on concrete texts (symbolic numerics of loads are C04/C05).")
CHECKS["C14"] = dict(category=MC, design_ref="5/C14",
    text="For every class of the instruction map except FENCE the real __repr__ of an instance with symbolic immediate (whole encodable range) and enumerated register numbers is re-assembled by the real load_program behind k nops; class, fields and printed text are proved equal for all immediates. Listing clause: load(listing(load(P))) reproduces the listing for two-line program shapes with symbolic numerics.",
    note="Trusted: as C04. Bounds: register sweep per operand (all 32 thorough), k in {0,1,7}.")
CHECKS["C15"] = dict(category=MC, design_ref="5/C15",
    text="For every int() conversion found by an AST scan of the parsers, z3's regex theory compares (no length bound) the literal language the live pyparsing grammar delivers with CPython's accepted literal language; witnesses outside it (and the 4300-digit limit) are pushed through the real load_program in every feeding line shape and must yield ParserException with an existing line. 80+ lexically / structurally faulty texts per assembler may only raise ParserException (valid line) or the size errors. Run time: every faulting class in both modes reports InstructionExecutionException with the address and printed form (symbolic operands).",
    note="Trusted: grammar-to-regex translation, CPython literal grammar. Arbitrary token soups and termination are outside.")
CHECKS["C16"] = dict(category=MC, design_ref="5/C16",
    text="After the steps of bounded symbolic programs (both modes, with/without data and instruction caches) and TOY programs every public zero-argument get_*/is_*/has_* method (introspection) is called twice: z3 proves the deep snapshot (registers, memory, caches, replacement state, counters, latches) unchanged and the second result equal to the first, and that no process-wide shared table of the repository (module/class-level lists, dicts, sets) differs from its state right after import. Differential clause: a twin simulation on the same symbolic initial state on which no inspection function is ever called is stepped alongside; every inspection result and the state of the inspected run must equal those of the twin (after every step on the small harness, at the end elsewhere), which also catches effects kept outside the snapshot (memoised results).",
    note="Bounds: pinned register numbers (dependency chain), initial register values < 2^31, states: initial, first, every 3rd, final; memory-table getter on a small real-dict memory.")
CHECKS["C17"] = dict(category=MC, design_ref="5/C17",
    text="get_n_bit_representations (n=12,16,32) on a symbolic number in [-2^40,2^40]: the output strings carry one symbolic digit per character, so the repository's grouping code acts on them; z3 proves separator positions and that every binary/hex character is the corresponding bit/nibble of value mod 2^n, and the decimal strings are the unsigned / two's-complement readings. Register table with symbolic values at enumerated positions; data-memory tables for every subset of <=3 written bytes of 9 candidate addresses (rows = written words, ascending, true addresses); TOY tables.",
    note="Trusted: str(int); digit model of fixed-width formats validated against CPython by the concrete oracle on every path.")
CHECKS["C19"] = dict(category=MC, design_ref="5/C19",
    text="from_integer on a symbolic word in [-2^20,2^20]: class by opcode (13-15 -> NOP), address field, encode(decode(w)) == w for opcodes <= 12; every class with symbolic address encodes to a word that decodes to an equal instruction. The real TOY load_program on enumerated text skeletons (label at every position, decimal/hex/label/variable operands, 0-2 declarations, both segment orders, upper/lower case) with all numbers symbolic: instruction i at address i, variables downward from 4095, elements ascending, max_pc. Both help-page examples (read from the working tree) with symbolic n<=4 / symbolic tuple.",
    note="Trusted: as C04; placement rules in checks/c19.py.")

PLANNED = {}

ALL = ["C%02d" % i for i in range(1, 21)]


# additions of the third session (DESIGN.md section 10), appended to the claimed level texts
EXTRA = {
    "C01": " The program counter must be exactly the specified one wherever that address can hold an instruction (modulo 2^32 only outside the instruction address space).",
    "C03": " Plus deep histories (4-6 accesses incl. uncounted reads and a reset/reload, symbolic set and tag) from a reset cache: every read returns the flat value.",
    "C04": " A second unreferenced own-line label whose name spells a mnemonic / pseudo-instruction / register / directive word is placed at every position: label names never change what is assembled.",
    "C06": " Plus programs on a reused simulation object: every ordered pair of 5 TOY texts (data words symbolic), first run to completion (run / step / half-cycle API), second loaded on the same object and compared step by step with a fresh object.",
    "C09": " Plus deep histories (4-6 accesses incl. uncounted reads and a reset/reload) from a reset cache against an executable reference cache (checks/cachestep.RefCache): hit verdict, counters and penalty after every access, resident tags / victim / policy state at the end.",
    "C10": " Plus deep access histories through the real memory systems against the executable reference cache (resident block per way, next victim, LRU order / PLRU bits at the end).",
    "C11": " Plus fetch / reset+reload histories from a fresh instruction cache against the executable reference cache, also over sparse instruction memories (holes inside a block).",
    "C12": " Plus deep histories (incl. a reset/reload inside the history) from a reset cache: write-through backing memory current and resident blocks equal to backing, write-back backing differs only where resident and no written value is lost.",
    "C15": " Plus token corruptions: every token of 31 RISC-V / 8 TOY line shapes replaced by, prefixed with and followed by each of 46 junk tokens (complete enumeration of that set).",
    "C16": " Plus direct-mapped single-block cache configurations with a print-string ecall (uncounted reads that evict and write back) in the inspected-vs-never-inspected twin runs.",
    "C17": " TOY program counter over all 12-bit values; memory table after a store that fails half-way at the top of the address space.",
    "C18": " Third configuration: byte store with wrap-around whose first valid address is symbolic in [0, 2^20] (0 = the class default).",
}
for _k, _v in EXTRA.items():
    CHECKS[_k]["text"] = CHECKS[_k]["text"] + _v
TECH = TECH + "; every k-th verification condition re-decided by the cvc5 binary from an SMT-LIB2 export"


def main():
    checks = []
    for pid in ALL:
        if pid not in CHECKS:
            continue
        c = CHECKS[pid]
        checks.append(
            {
                "property_id": pid,
                "quick_cmd": "sh /verif/bin/check %s --tier quick" % pid,
                "thorough_cmd": "sh /verif/bin/check %s --tier thorough" % pid,
                "evidence_file": "/verif/evidence/%s.json" % pid,
                "replay_cmd_template": "sh /verif/bin/check %s --replay {path}" % pid,
                "engine": "symx",
                "level_claimed": {"category": c["category"], "text": c["text"], "design_ref": c["design_ref"]},
                "level_note": c["note"],
                "technique": c.get("technique", TECH),
            }
        )
    na = [
        {"property_id": pid, "reason": PLANNED.get(pid, "check not built yet (planned: DESIGN.md 5/%s)" % pid)}
        for pid in ALL
        if pid not in CHECKS
    ]
    m = {
        "version": 1,
        "setup_cmd": "sh /verif/bin/setup.sh",
        "hooks": {
            "guard": "ARCHSIM_VERIF",
            "enable": "no source hooks: checks rebind builtins and replace the fixedint dependency inside their own process (ARCHSIM_VERIF=1 is exported by bin/check but no repository code reads it)",
            "baseline_off_cmd": "cd /repo && /venv/bin/python -m pytest -q -p no:cacheprovider --timeout=900",
            "source_commits": [],
            "add_only": True,
        },
        "engines": [
            {
                "name": "symx",
                "path": "/verif/symx",
                "serves_properties": sorted(CHECKS),
                "kind_free_text": "purpose-built symbolic executor: runs the real repository code on z3-backed int/fixedint/container proxies, forks eagerly, discharges verification conditions with z3; concrete oracle process replays sampled paths and every counterexample on the unmodified code",
            }
        ],
        "checks": checks,
        "notes": "See DESIGN.md. Exit 2 of a check means inconclusive (solver unknown, unsupported construct, encoding mismatch, dead canary) and is never reported as a pass.",
        "not_applicable": na,
    }
    with open(os.path.join(VERIF, "MANIFEST.json"), "w") as f:
        json.dump(m, f, indent=1)
        f.write("\n")


if __name__ == "__main__":
    main()
