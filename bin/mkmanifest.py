#!/usr/bin/env python3
"""Regenerates /verif/MANIFEST.json from the table below (kept next to the checks so that the
manifest, the claimed levels and the not_applicable list stay in step)."""
import json
import os

VERIF = os.path.dirname(os.path.dirname(os.path.abspath(__file__)))

TECH = "bounded symbolic execution of the real code (symx: z3-backed proxies) + SMT (z3 QF_UFBV); counterexamples replayed on the unmodified code"

CHECKS = {
    "C01": dict(
        category="model_checking",
        text="One inductive step of the real RiscvSimulation.step() (single-cycle) from an arbitrary state: all 32 registers, the whole data memory, pc, register indices and every encodable immediate are symbolic; z3 decides every path for all values against an independent ISA reference (46 instruction classes, ecall table, fault clause, termination clause). Induction over steps gives programs of any length.",
        design_ref="5/C01",
        note="Trusted: CPython renderers, z3, fixedint model (validated each run), refs/riscv_ref.py, lemma L-FP. Bounds: ecall strings <= 3 chars; pc compared modulo 2^32.",
    ),
}

PLANNED = {}

ALL = ["C%02d" % i for i in range(1, 21)]


def main():
    checks = []
    for pid in ALL:
        if pid not in CHECKS:
            continue
        c = CHECKS[pid]
        checks.append(
            {
                "property_id": pid,
                "quick_cmd": "sh /verif/bin/check %s --tier quick" % pid,
                "thorough_cmd": "sh /verif/bin/check %s --tier thorough" % pid,
                "evidence_file": "/verif/evidence/%s.json" % pid,
                "replay_cmd_template": "sh /verif/bin/check %s --replay {path}" % pid,
                "engine": "symx",
                "level_claimed": {"category": c["category"], "text": c["text"], "design_ref": c["design_ref"]},
                "level_note": c["note"],
                "technique": c.get("technique", TECH),
            }
        )
    na = [
        {"property_id": pid, "reason": PLANNED.get(pid, "check not built yet (planned: DESIGN.md 5/%s)" % pid)}
        for pid in ALL
        if pid not in CHECKS
    ]
    m = {
        "version": 1,
        "setup_cmd": "sh /verif/bin/setup.sh",
        "hooks": {
            "guard": "ARCHSIM_VERIF",
            "enable": "no source hooks: checks rebind builtins and replace the fixedint dependency inside their own process (ARCHSIM_VERIF=1 is exported by bin/check but no repository code reads it)",
            "baseline_off_cmd": "cd /repo && /venv/bin/python -m pytest -q -p no:cacheprovider --timeout=900",
            "source_commits": [],
            "add_only": True,
        },
        "engines": [
            {
                "name": "symx",
                "path": "/verif/symx",
                "serves_properties": sorted(CHECKS),
                "kind_free_text": "purpose-built symbolic executor: runs the real repository code on z3-backed int/fixedint/container proxies, forks eagerly, discharges verification conditions with z3; concrete oracle process replays sampled paths and every counterexample on the unmodified code",
            }
        ],
        "checks": checks,
        "notes": "See DESIGN.md. Exit 2 of a check means inconclusive (solver unknown, unsupported construct, encoding mismatch, dead canary) and is never reported as a pass.",
        "not_applicable": na,
    }
    with open(os.path.join(VERIF, "MANIFEST.json"), "w") as f:
        json.dump(m, f, indent=1)
        f.write("\n")


if __name__ == "__main__":
    main()
