#!/usr/bin/env python3
"""meta.json for the seeded changes of rounds 5-7 and the table of DESIGN.md 10.5.
usage: seedmeta3.py --first <seedcheck logs of the first run ...> --final <seedpass logs of the re-run after strengthening ...>"""
import json, os, re, sys

sys.path.insert(0, os.path.dirname(os.path.abspath(__file__)))
from seedmeta_notes import STRENGTHENED  # noqa


def parse(files, keep_first=False):
    logs = "".join(open(f).read() for f in files if os.path.exists(f))
    res = {}
    for b in re.split(r"^== ", logs, flags=re.M)[1:]:
        name = b.split(":")[0].strip()
        d = res.setdefault(name, {"checks": {}})
        m = re.search(r"tests with change: (.*)", b)
        if m:
            d["tests_with_change"] = m.group(1).split(",")[0].strip()
        m = re.search(r"demo exit with change: (\d+) ; without: (\d+)", b)
        if m:
            d["demo_exit_with_change"], d["demo_exit_without_change"] = int(m.group(1)), int(m.group(2))
        for m in re.finditer(r"check (C\d+) on \S+: violations=(\d+) :: (.*)", b):
            claims = []
            for line in b[m.end():].splitlines()[1:6]:
                mm = re.match(r"\s+\d+\s+claim=(\S+) job=(\S+)", line)
                if not mm:
                    break
                claims.append("%s @ %s" % (mm.group(1), mm.group(2)))
            rc = re.search(r"-> exit (\d+)", m.group(3))
            if keep_first and m.group(1) in d["checks"]:
                continue
            d["checks"][m.group(1)] = {"violations": int(m.group(2)), "exit": int(rc.group(1)) if rc else None, "summary": m.group(3).strip()[:260], "sample_claims": claims}
    return res


a = sys.argv[1:]
i, j = a.index("--first"), a.index("--final")
first, final = parse(a[i + 1 : j], keep_first=True), parse(a[j + 1 :])
rows = []
for name in sorted(set(first) | set(final)):
    dirp = os.path.join("/verif/seeded", name)
    if not os.path.isdir(dirp):
        continue
    f0, f1 = first.get(name, {"checks": {}}), final.get(name, {"checks": {}})
    conf = f1 if "tests_with_change" in f1 else f0
    meta_txt = open(os.path.join(dirp, "meta.txt")).read().strip() if os.path.exists(os.path.join(dirp, "meta.txt")) else ""
    caught0 = sorted(c for c, v in f0["checks"].items() if v["violations"] > 0)
    missed0 = sorted(c for c, v in f0["checks"].items() if v["violations"] == 0)
    caught1 = sorted(c for c, v in f1["checks"].items() if v["violations"] > 0)
    own = name.split("-")[0]
    meta = {
        "property": own,
        "name": name,
        "what_it_breaks_and_what_it_needs_to_manifest": meta_txt,
        "confirmed_by_me": {
            "existing_tests_with_change": conf.get("tests_with_change"),
            "demo_exit_with_change": conf.get("demo_exit_with_change"),
            "demo_exit_without_change": conf.get("demo_exit_without_change"),
            "how": "bin/seedcheck.sh in a scratch worktree with the change applied: full pytest suite, demo.py with the change, change saved as a patch and reverted, demo again, patch re-applied",
        },
        "checks_run_first": f0["checks"],
        "checks_run_after_strengthening": f1["checks"],
        "how_checks_were_run": "VERIF_REPO=<scratch worktree of /repo's HEAD with patch.diff applied> bin/check <id> --tier quick",
        "caught_by": sorted(set(caught0) | set(caught1)),
        "not_caught_at_first_by": missed0,
        "missed_at_first": own in missed0 or (name in STRENGTHENED and own not in caught0),
        "check_strengthened_with": STRENGTHENED.get(name),
    }
    with open(os.path.join(dirp, "meta.json"), "w") as fh:
        json.dump(meta, fh, indent=1)
    rows.append((name, f0, f1))
print("| seeded change | first run: caught by (VIOLATION lines) | first run: not caught by | after strengthening | added |")
print("|---|---|---|---|---|")
for name, f0, f1 in rows:
    c0 = ", ".join("%s (%d)" % (c, v["violations"]) for c, v in sorted(f0["checks"].items()) if v["violations"] > 0) or "-"
    m0 = ", ".join("%s%s" % (c, " (exit 2, no VIOLATION line)" if v.get("exit") == 2 else "") for c, v in sorted(f0["checks"].items()) if v["violations"] == 0) or "-"
    c1 = ", ".join("%s (%d)" % (c, v["violations"]) for c, v in sorted(f1["checks"].items()) if v["violations"] > 0) or ("-" if not f1["checks"] else "NOT CAUGHT: " + ", ".join(f1["checks"]))
    print("| %s | %s | %s | %s | %s |" % (name, c0, m0, c1, STRENGTHENED.get(name, "")))
