#!/bin/sh
# Build /verif/.venv offline: a venv on top of /venv (repo deps + editable repo install) plus
# z3-solver and crosshair-tool from the local wheelhouse. Idempotent.
set -e
V=/verif/.venv
if [ -x "$V/bin/python" ] && "$V/bin/python" -c 'import z3, pyparsing, fixedint, architecture_simulator' 2>/dev/null; then
  exit 0
fi
rm -rf "$V"
/venv/bin/python -m venv "$V"
SP=$("$V/bin/python" -c 'import sysconfig; print(sysconfig.get_paths()["purelib"])')
echo "import site; site.addsitedir('/venv/lib/python3.12/site-packages')" > "$SP/_base.pth"
PIP_NO_INDEX=1 "$V/bin/pip" install -q --no-index --find-links /opt/veriftools/wheels z3-solver crosshair-tool jsonschema >/dev/null 2>&1 || \
PIP_NO_INDEX=1 "$V/bin/pip" install -q --no-index --find-links /opt/veriftools/wheels z3-solver
"$V/bin/python" -c 'import z3, pyparsing, fixedint, architecture_simulator; print("verif venv ok", z3.get_version_string())'
