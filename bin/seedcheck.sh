#!/bin/bash
# usage: seedcheck.sh <seed dir (worktree with the change applied and OUT/)> <name> <check id>...
# 1. confirms the change: tests pass with it, demo fails with it and passes without it
# 2. runs the given checks (quick tier) against the changed tree (VERIF_REPO) and reports
W=$1; NAME=$2; shift 2
cd $W || exit 2
echo "== $NAME: confirming the seeded change in $W"
T=$(/venv/bin/python -m pytest -q -p no:cacheprovider 2>&1 | tail -1)
echo "tests with change: $T"
/venv/bin/python OUT/demo.py > /tmp/seed_demo_with.txt 2>&1; D1=$?
git diff -- architecture_simulator > /tmp/sd_$NAME.patch; git checkout -q -- architecture_simulator
/venv/bin/python OUT/demo.py > /tmp/seed_demo_without.txt 2>&1; D0=$?
git apply /tmp/sd_$NAME.patch
echo "demo exit with change: $D1 ; without: $D0"
mkdir -p /verif/seeded/$NAME
cp OUT/patch.diff OUT/demo.py /verif/seeded/$NAME/ 2>/dev/null
cp OUT/meta.txt /verif/seeded/$NAME/meta.txt 2>/dev/null
cd /verif
for C in "$@"; do
  VERIF_REPO=$W /tmp/safe.sh 2400 /tmp/seed_${NAME}_$C.log bin/check $C --no-evidence
  V=$(grep -c "^VIOLATION" /tmp/seed_${NAME}_$C.log)
  S=$(grep -E "^C[0-9]+ quick" /tmp/seed_${NAME}_$C.log | tail -1)
  echo "check $C on $NAME: violations=$V :: $S"
  grep -A1 "^VIOLATION" /tmp/seed_${NAME}_$C.log | grep claim= | sed 's/ key=.*//' | sort | uniq -c | sort -rn | head -5
done
