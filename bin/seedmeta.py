#!/usr/bin/env python3
"""Builds /verif/seeded/<name>/meta.json from the final seedcheck logs (every kept seeded change
run against the final quick-tier checks) and the sub-agent's meta.txt, and prints the table for
DESIGN.md section 9.5.  usage: seedmeta.py <log>..."""
import json, os, re, sys

sys.path.insert(0, os.path.dirname(os.path.abspath(__file__)))

# seeded changes the checks did not catch when first run against them - or, for the last round,
# that reading the check showed it could not catch - and what was added
from seedmeta_notes import STRENGTHENED  # noqa

logs = "".join(open(f).read() for f in sys.argv[1:] if os.path.exists(f))
blocks = re.split(r"^== ", logs, flags=re.M)[1:]
res = {}
for b in blocks:
    name = b.split(":")[0].strip()
    d = res.setdefault(name, {"checks": {}})
    m = re.search(r"tests with change: (.*)", b)
    if m:
        d["tests_with_change"] = m.group(1).split(",")[0].strip()
    m = re.search(r"demo exit with change: (\d+) ; without: (\d+)", b)
    if m:
        d["demo_exit_with_change"], d["demo_exit_without_change"] = int(m.group(1)), int(m.group(2))
    for m in re.finditer(r"check (C\d+) on \S+: violations=(\d+) :: (.*)", b):
        claims = []
        tail = b[m.end():]
        for line in tail.splitlines()[1:6]:
            mm = re.match(r"\s+\d+\s+claim=(\S+) job=(\S+)", line)
            if not mm:
                break
            claims.append("%s @ %s" % (mm.group(1), mm.group(2)))
        d["checks"][m.group(1)] = {"violations": int(m.group(2)), "summary": m.group(3).strip(), "sample_claims": claims}
rows = []
for name in sorted(os.listdir("/verif/seeded")):
    dirp = os.path.join("/verif/seeded", name)
    if not os.path.isdir(dirp) or name not in res:
        if os.path.isdir(dirp):
            print("no result for", name, file=sys.stderr)
        continue
    r = res[name]
    meta_txt = open(os.path.join(dirp, "meta.txt")).read().strip() if os.path.exists(os.path.join(dirp, "meta.txt")) else ""
    caught = sorted(c for c, v in r["checks"].items() if v["violations"] > 0)
    missed = sorted(c for c, v in r["checks"].items() if v["violations"] == 0)
    meta = {
        "property": name.split("-")[0],
        "name": name,
        "what_it_breaks_and_what_it_needs_to_manifest": meta_txt,
        "confirmed_by_me": {
            "existing_tests_with_change": r.get("tests_with_change"),
            "demo_exit_with_change": r.get("demo_exit_with_change"),
            "demo_exit_without_change": r.get("demo_exit_without_change"),
            "how": "bin/seedcheck.sh: in the sub-agent's scratch worktree (change applied): full pytest suite, OUT/demo.py with the change, change saved as a patch and reverted, demo again, patch re-applied",
        },
        "checks_run": {c: v for c, v in sorted(r["checks"].items())},
        "how_checks_were_run": "VERIF_REPO=<worktree with the patch applied> bin/check <id> --tier quick (the check imports and reads the repository from VERIF_REPO instead of /repo)",
        "caught_by": caught,
        "not_caught_by": missed,
        "missed_at_first": name in STRENGTHENED,
        "check_strengthened_with": STRENGTHENED.get(name),
    }
    with open(os.path.join(dirp, "meta.json"), "w") as f:
        json.dump(meta, f, indent=1)
    rows.append((name, caught, missed, r))
print("| seeded change | caught by (quick tier; number of VIOLATION lines) | not caught by | missed at first; added |")
print("|---|---|---|---|")
for name, caught, missed, r in rows:
    print("| %s | %s | %s | %s |" % (name, ", ".join("%s (%d)" % (c, r["checks"][c]["violations"]) for c in caught) or "-", ", ".join(missed) or "-", STRENGTHENED.get(name, "")))
