#!/usr/bin/env python3
"""Builds /verif/seeded/<name>/meta.json from the final seedcheck logs (every kept seeded change
run against the final quick-tier checks) and the sub-agent's meta.txt, and prints the table for
DESIGN.md section 9.5.  usage: seedmeta.py <log>..."""
import json, os, re, sys

# seeded changes the checks did not catch when first run against them - or, for the last round,
# that reading the check showed it could not catch - and what was added
STRENGTHENED = {
    "C05-store-pseudo-carry": "C05 `far` harness (element indices up to 2^18: every lui/addi carry case of name[i])",
    "C11-icache-uses-dcache-policy": "cache configuration plumbing harness `config` (C09/C11)",
    "C16-memory-table-touches-replacement-state": "C16 `small` harness (real-dict memory, memory-table getter on real keys, cache snapshot)",
    "C17-memory-table-unsorted": "C17 memory harness writes in ascending, descending and rotated order",
    "C09-lhu-display-read-counted": "one-instruction cached programs for every load/store class (`prog1-*`)",
    "C13-string-terminator-through-cache": "C13 reload texts with `.string` declarations and caches",
    "C16-toy-svg-getter-mutates-shared-table": "snapshot of every module/class-level mutable table of the repository (symx/globalsnap.py)",
    "C11-load-skips-icache-reset": "C11 `reload` harness: reload after a partial run, instruction cache compared with a fresh one",
    "C08-stale-decode-during-ecall-drain": "producer / ecall / consumer sandwiches always in the quick tier",
    "C07-silent-byte-read-adds-penalty": "C07 `penalty` harness (both caches, symbolic penalties, per-step cycle delta)",
    "C05-half-preload-through-cache": "C05 layouts loaded into simulations with a data cache and read back through it",
    "C07-x0-write-hides-older-producer": "producer / filler / consumer triples (the full interlock window) always in the quick tier",
    "C09-sets-share-replacement-state": "reference post-state: untouched sets keep their replacement state",
    "C16-cache-set-repr-memo": "C16 differential twin: inspected run vs a run on which no inspection function was ever called",
    "C01-lhu-result-left-16-bit": "concrete twin of the register container's cell-type claim (symbolic counterexample was unconfirmable before)",
    "C03-sh-bypasses-cache-in-five-stage": "cached program pairs: a store of every width onto a block made resident by the preceding access; memory compared as the program sees it",
    "C05-string-content-quote-strip": "string declaration whose content starts and ends with a quote character",
    "C17-table-memo-survives-reset": "C17 memory harness continues through reset / reload and the next write",
    "C10-fill-prefers-empty-way": "C10 `fill` harness: which block a fill displaces (CacheSet inside the memory system, 2 and 4 ways)",
    "C14-fault-message-text-from-wrong-latch": "C14 `message` harness (error-message clause; before, only C15 caught it)",
    "C19-toy-int-base0": "C19 `numbers` harness: operand / data spellings with leading zeros (before, only C15's regex lemma caught it)",
    "C12-sb-passes-signed-byte": "C12 `prog` jobs: state relation at the end of cached programs in both modes; single-cycle cached memory compared with the uncached run",
    "C02-sh-default-bypasses-cache-five-stage": "C02 `prog_cached` jobs: both modes with a data cache",
    "C04-instruction-memory-not-cleared-on-write": "C04 `reparse` jobs: parser API into a state that already holds a longer program",
    "C16-svg-directives-object-reused": "C16 `text` harness: assembled sequences with CSR accesses, fresh never-inspected twin after every step",
    # rounds 5-7 (third session)
    "C10-setskip-redundant-touch": "deep histories from a reset cache against an executable reference cache (C09/C10/C03/C12 `deep`)",
    "C18-write-wrap-once-per-access": "C18 configuration with a symbolic first valid address (0 = class default)",
    "C17-toy-pc-sdec-fixedint": "C17 TOY pc over all 12-bit values; concrete twin uses the symbolic claim labels (the counterexample was found but could not be confirmed)",
    "C06-decode-cache-survives-load": "C06 `reuse` harness (second program on an object that already ran one); hard per-job wall limit (the changed code never returned from run())",
    "C16-wordwise-repr-memo-by-accesses": "C16 direct-mapped single-block cache configurations with a print-string ecall (uncounted reads that evict / write back)",
    "C01-jalr-target-not-wrapped-single": "C01 claim pc-exact-where-an-instruction-can-be (the check compared pc modulo 2^32 only)",
    "C15-offset-errorstop-escapes": "C15 `corrupt` harness: every token of every line shape replaced by / prefixed with / followed by junk tokens",
    "C17-memory-table-memo-partial-store": "C17 memory table after a store that fails half-way at the top of the address space",
    "C06-instruction-count-in-step": "C06 half-cycle twin and step-after-halt accounting claims (before, only C20 caught it)",
    "C14-toy-listing-memo": "C14 `toy_listing` harness: the TOY listing re-assembles to the current memory word after every step of self-modifying programs",
    "C20-table-memo-cycle-marker": "C20 drivers with the front end's queries issued between the two halves",
    "C11-block-fill-stops-at-first-hole": "C11 fetch/reset histories over sparse instruction memories (added after reading the sub-agent's report, before the first run of the check against it)",
    "C12-reset-invalidate-keeps-dirty-ghost": "reset operation inside the deep data-cache histories (added after reading the sub-agent's report, before the first run of the check against it)",
    "C13-is-done-latched": "C13 reload harness with front-end queries (and no-op step/run) between loads and a run to completion afterwards",
}

logs = "".join(open(f).read() for f in sys.argv[1:] if os.path.exists(f))
blocks = re.split(r"^== ", logs, flags=re.M)[1:]
res = {}
for b in blocks:
    name = b.split(":")[0].strip()
    d = res.setdefault(name, {"checks": {}})
    m = re.search(r"tests with change: (.*)", b)
    if m:
        d["tests_with_change"] = m.group(1).split(",")[0].strip()
    m = re.search(r"demo exit with change: (\d+) ; without: (\d+)", b)
    if m:
        d["demo_exit_with_change"], d["demo_exit_without_change"] = int(m.group(1)), int(m.group(2))
    for m in re.finditer(r"check (C\d+) on \S+: violations=(\d+) :: (.*)", b):
        claims = []
        tail = b[m.end():]
        for line in tail.splitlines()[1:6]:
            mm = re.match(r"\s+\d+\s+claim=(\S+) job=(\S+)", line)
            if not mm:
                break
            claims.append("%s @ %s" % (mm.group(1), mm.group(2)))
        d["checks"][m.group(1)] = {"violations": int(m.group(2)), "summary": m.group(3).strip(), "sample_claims": claims}
rows = []
for name in sorted(os.listdir("/verif/seeded")):
    dirp = os.path.join("/verif/seeded", name)
    if not os.path.isdir(dirp) or name not in res:
        if os.path.isdir(dirp):
            print("no result for", name, file=sys.stderr)
        continue
    r = res[name]
    meta_txt = open(os.path.join(dirp, "meta.txt")).read().strip() if os.path.exists(os.path.join(dirp, "meta.txt")) else ""
    caught = sorted(c for c, v in r["checks"].items() if v["violations"] > 0)
    missed = sorted(c for c, v in r["checks"].items() if v["violations"] == 0)
    meta = {
        "property": name.split("-")[0],
        "name": name,
        "what_it_breaks_and_what_it_needs_to_manifest": meta_txt,
        "confirmed_by_me": {
            "existing_tests_with_change": r.get("tests_with_change"),
            "demo_exit_with_change": r.get("demo_exit_with_change"),
            "demo_exit_without_change": r.get("demo_exit_without_change"),
            "how": "bin/seedcheck.sh: in the sub-agent's scratch worktree (change applied): full pytest suite, OUT/demo.py with the change, change saved as a patch and reverted, demo again, patch re-applied",
        },
        "checks_run": {c: v for c, v in sorted(r["checks"].items())},
        "how_checks_were_run": "VERIF_REPO=<worktree with the patch applied> bin/check <id> --tier quick (the check imports and reads the repository from VERIF_REPO instead of /repo)",
        "caught_by": caught,
        "not_caught_by": missed,
        "missed_at_first": name in STRENGTHENED,
        "check_strengthened_with": STRENGTHENED.get(name),
    }
    with open(os.path.join(dirp, "meta.json"), "w") as f:
        json.dump(meta, f, indent=1)
    rows.append((name, caught, missed, r))
print("| seeded change | caught by (quick tier; number of VIOLATION lines) | not caught by | missed at first; added |")
print("|---|---|---|---|")
for name, caught, missed, r in rows:
    print("| %s | %s | %s | %s |" % (name, ", ".join("%s (%d)" % (c, r["checks"][c]["violations"]) for c in caught) or "-", ", ".join(missed) or "-", STRENGTHENED.get(name, "")))
