#!/bin/bash
# usage: seedpass.sh <seeded name> <check id>... : scratch worktree of /repo's HEAD + seeded/<name>/patch.diff,
# confirm (tests, demo with/without), run the checks against it, remove the worktree. Log on stdout.
N=$1; shift
W=/tmp/sp_$N
git -C /repo worktree remove --force $W 2>/dev/null
git -C /repo worktree add -q --detach $W HEAD || exit 2
mkdir -p $W/OUT
cp /verif/seeded/$N/patch.diff /verif/seeded/$N/demo.py $W/OUT/
[ -f /verif/seeded/$N/meta.txt ] && cp /verif/seeded/$N/meta.txt $W/OUT/
( cd $W && git apply OUT/patch.diff ) || { echo "== $N: PATCH DOES NOT APPLY"; git -C /repo worktree remove --force $W; exit 2; }
bash /verif/bin/seedcheck.sh $W $N "$@"
git -C /repo worktree remove --force $W
