"""Reference TOY accumulator machine (help page: 4096 x 16-bit unified memory, 16-bit ACCU,
12-bit PC, IR; execute IR, then fetch MEM[PC] iff PC <= last instruction address, PC <- PC+1)."""
from __future__ import annotations

from symx.ops import zx, val

MNEMONIC = ["STO", "LDA", "BRZ", "ADD", "SUB", "OR", "AND", "XOR", "NOT", "INC", "DEC", "ZRO", "NOP"]


def execute(op, addr, accu, pc, mem_read, mem_write):
    """op: concrete opcode 0..15; returns (accu', pc', branched)"""
    branched = False
    if op == 0:
        mem_write(addr, accu)
    elif op == 1:
        accu = mem_read(addr)
    elif op == 2:
        if accu == 0:
            pc = addr
            branched = True
    elif op == 3:
        accu = zx(accu + mem_read(addr), 16)
    elif op == 4:
        accu = zx(accu - mem_read(addr), 16)
    elif op == 5:
        accu = accu | mem_read(addr)
    elif op == 6:
        accu = accu & mem_read(addr)
    elif op == 7:
        accu = accu ^ mem_read(addr)
    elif op == 8:
        accu = zx(~accu, 16)
    elif op == 9:
        accu = zx(accu + 1, 16)
    elif op == 10:
        accu = zx(accu - 1, 16)
    elif op == 11:
        accu = 0
    # 12..15: no operation
    return accu, pc, branched
