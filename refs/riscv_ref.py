"""Reference semantics of one RV32IM instruction (RISC-V unprivileged spec, the simulator's
documented address map [2^14, 2^32) for data, and the documented ecall table).

Written over int-likes (plain ints in the concrete twin, SymInt in the symbolic run) with the
helpers of symx.ops; independent of the repository code."""
from __future__ import annotations

from symx.ops import zx, sx, tdiv, trem, f32_text, chr_text, fmt

M32 = 0xFFFFFFFF
DATA_MIN = 2**14

R_ALU = {"add", "sub", "sll", "slt", "sltu", "xor", "srl", "sra", "or", "and",
         "mul", "mulh", "mulhu", "mulhsu", "div", "divu", "rem", "remu"}
I_ALU = {"addi", "slti", "sltiu", "xori", "ori", "andi"}
I_SHIFT = {"slli", "srli", "srai"}
LOADS = {"lb": (1, True), "lh": (2, True), "lw": (4, False), "lbu": (1, False), "lhu": (2, False)}
STORES = {"sb": 1, "sh": 2, "sw": 4}
BRANCHES = {"beq", "bne", "blt", "bge", "bltu", "bgeu"}
IMM_BITS = {"I": 12, "S": 12, "B": 13, "U": 20, "J": 21}


def fmt_of(m):
    if m in R_ALU:
        return "R"
    if m in I_ALU or m in LOADS or m == "jalr":
        return "I"
    if m in I_SHIFT:
        return "SH"
    if m in STORES:
        return "S"
    if m in BRANCHES:
        return "B"
    if m in ("lui", "auipc"):
        return "U"
    if m == "jal":
        return "J"
    if m == "ecall":
        return "E"
    raise KeyError(m)


def alu(m, a, b):
    """a, b: unsigned 32-bit values; result unsigned 32-bit"""
    if m in ("add", "addi"):
        return zx(a + b, 32)
    if m == "sub":
        return zx(a - b, 32)
    if m in ("sll", "slli"):
        return zx(a << zx(b, 5), 32)
    if m in ("srl", "srli"):
        return a >> zx(b, 5)
    if m in ("sra", "srai"):
        return zx(sx(a, 32) >> zx(b, 5), 32)
    if m in ("slt", "slti"):
        return 1 if sx(a, 32) < sx(b, 32) else 0
    if m in ("sltu", "sltiu"):
        return 1 if a < b else 0
    if m in ("xor", "xori"):
        return a ^ b
    if m in ("or", "ori"):
        return a | b
    if m in ("and", "andi"):
        return a & b
    if m == "mul":
        return zx(a * b, 32)
    if m == "mulh":
        return zx((sx(a, 32) * sx(b, 32)) >> 32, 32)
    if m == "mulhu":
        return zx((a * b) >> 32, 32)
    if m == "mulhsu":
        return zx((sx(a, 32) * b) >> 32, 32)
    if m == "div":
        if b == 0:
            return M32
        return zx(tdiv(sx(a, 32), sx(b, 32)), 32)  # overflow -2^31 / -1 -> 2^31 -> wraps to 0x80000000
    if m == "divu":
        if b == 0:
            return M32
        return tdiv(a, b)
    if m == "rem":
        if b == 0:
            return a
        sa, sb = sx(a, 32), sx(b, 32)
        return zx(sa - tdiv(sa, sb) * sb, 32)
    if m == "remu":
        if b == 0:
            return a
        return a % b  # both operands non-negative: the unsigned remainder
    raise KeyError(m)


def branch_taken(m, a, b):
    if m == "beq":
        return a == b
    if m == "bne":
        return a != b
    if m == "blt":
        return sx(a, 32) < sx(b, 32)
    if m == "bge":
        return sx(a, 32) >= sx(b, 32)
    if m == "bltu":
        return a < b
    if m == "bgeu":
        return a >= b
    raise KeyError(m)


class Effect:
    def __init__(self):
        self.reg = None  # (rd, value)
        self.mem = []  # [(addr32, byte)]
        self.pc = None  # next pc (mod 2^32)
        self.out = ""
        self.exit_code = None
        self.fault = None  # None | "address" | "ecall-code"
        self.touched = []  # byte addresses (mod 2^32) the access touches
        self.taken_branch = False
        self.call = False
        self.is_load = False
        self.is_store = False


MAX_STR = 3


def step(m, f, pc, reg, mem):
    """m mnemonic; f dict of architectural fields (rd, rs1, rs2, imm already reduced to the
    instruction's immediate value); pc; reg(i)->u32; mem(a)->byte at address a (a in [0,2^32)).
    Returns Effect."""
    e = Effect()
    e.pc = zx(pc + 4, 32)
    k = fmt_of(m)
    if k == "R":
        e.reg = (f["rd"], alu(m, reg(f["rs1"]), reg(f["rs2"])))
    elif k == "I" and m in I_ALU:
        e.reg = (f["rd"], alu(m, reg(f["rs1"]), zx(f["imm"], 32)))
    elif k == "SH":
        e.reg = (f["rd"], alu(m, reg(f["rs1"]), f["imm"]))
    elif m in LOADS:
        n, signed = LOADS[m]
        base = zx(reg(f["rs1"]) + f["imm"], 32)
        e.is_load = True
        v = 0
        for i in range(n):
            a = zx(base + i, 32)
            e.touched.append(a)
        for i in range(n):
            if e.touched[i] < DATA_MIN:
                e.fault = "address"
                return e
            v = v | (mem(e.touched[i]) << (8 * i))
        e.reg = (f["rd"], zx(sx(v, 8 * n), 32) if signed else v)
    elif m in STORES:
        n = STORES[m]
        base = zx(reg(f["rs1"]) + f["imm"], 32)
        e.is_store = True
        v = reg(f["rs2"])
        for i in range(n):
            e.touched.append(zx(base + i, 32))
        for i in range(n):
            if e.touched[i] < DATA_MIN:
                e.fault = "address"
                return e
        for i in range(n):
            e.mem.append((e.touched[i], zx(v >> (8 * i), 8)))
    elif k == "B":
        if branch_taken(m, reg(f["rs1"]), reg(f["rs2"])):
            e.pc = zx(pc + f["imm"], 32)
            e.taken_branch = True
    elif m == "lui":
        e.reg = (f["rd"], zx(f["imm"] << 12, 32))
    elif m == "auipc":
        e.reg = (f["rd"], zx(pc + (f["imm"] << 12), 32))
    elif m == "jal":
        e.reg = (f["rd"], zx(pc + 4, 32))
        e.pc = zx(pc + f["imm"], 32)
        e.call = True
    elif m == "jalr":
        t = zx(reg(f["rs1"]) + f["imm"], 32) & 0xFFFFFFFE
        e.reg = (f["rd"], zx(pc + 4, 32))
        e.pc = t
    elif m == "ecall":
        code = reg(17)
        a0 = reg(10)
        if code == 1:
            e.out = fmt(sx(a0, 32))
        elif code == 2:
            e.out = f32_text(a0)
        elif code == 4:
            s = ""
            i = 0
            while True:
                a = zx(a0 + i, 32)
                e.touched.append(a)
                if a < DATA_MIN:
                    e.fault = "address"
                    return e
                b = mem(a)
                if b == 0:
                    break
                s += chr_text(b & 127)
                i += 1
                if i > MAX_STR:
                    from symx.core import PathCut

                    raise PathCut("print-string longer than %d characters" % MAX_STR)
            e.out = s
        elif code == 10:
            e.exit_code = 0
        elif code == 11:
            e.out = chr_text(a0 & 127)
        elif code == 34:
            e.out = "0x" + fmt(a0, "X")
        elif code == 35:
            e.out = fmt(a0, "#b")
        elif code == 36:
            e.out = fmt(a0)
        elif code == 93:
            e.exit_code = a0
        else:
            e.fault = "ecall-code"
            return e
    else:
        raise KeyError(m)
    return e
