"""Reference five-stage in-order pipeline (token level), written from the documented schedule:

* one fetch per cycle; an instruction fetched in cycle f is decoded in f+1, executes in f+2,
  is in the memory stage in f+3 and retires (write-back) in f+4 when nothing holds it up;
* registers are written before they are read within a cycle (write-back precedes decode);
* no forwarding. With the interlock on, an instruction whose source register equals the
  non-x0 destination of the instruction in the execute or memory stage *in its first decode
  cycle* stays two extra cycles in decode;
* control transfers (taken branch, jal, jalr) are resolved in the memory stage; the next
  instruction is fetched in the following cycle; wrong-path instructions never reach the
  memory stage and have no effect;
* an ecall that finds an instruction in the memory or write-back stage when it reaches execute
  waits two extra cycles in execute, then performs its effect; everything behind it waits.

Timing is computed by in-order recurrences over the dynamic instruction stream (no slot
simulation, no reference to the repository's stage/stall bookkeeping)."""
from __future__ import annotations

from refs import riscv_ref as R
from symx.ops import zx, sx, val, ite, cond


def sources(m, f):
    k = R.fmt_of(m)
    if k == "R" or k == "S" or k == "B":
        return [f["rs1"], f["rs2"]]
    if k in ("I", "SH"):
        return [f["rs1"]]
    if k == "E":
        return [0]
    return []


def dest(m, f):
    k = R.fmt_of(m)
    if k in ("R", "I", "SH", "U", "J"):
        return f["rd"]
    return None


class Tok:
    __slots__ = ("idx", "m", "f", "F", "D", "X", "XE", "M", "W", "taken", "waits", "stalled")


class Timing:
    """in-order recurrences; call add() for each executed instruction in program order"""

    def __init__(self, interlock=True):
        self.interlock = interlock
        self.toks = []
        self.next_fetch = 1  # cycle in which the next instruction is fetched
        self.ecall_waits = 0
        self.interlock_stalls = 0

    def add(self, m, f):
        """returns the token with its cycle numbers (F, D, X, XE, M, W)"""
        t = Tok()
        t.m, t.f = m, f
        prev = self.toks[-1] if self.toks else None
        t.F = self.next_fetch
        t.D = t.F + 1 if prev is None else max(t.F + 1, prev.X)
        # interlock: producers in EX or MEM during the first decode cycle
        hazard = False
        if self.interlock:
            srcs = sources(m, f)
            for p in self.toks[-3:]:
                if p.X <= t.D <= p.M:
                    d = dest(p.m, p.f)
                    if d is None:
                        continue
                    for s in srcs:
                        if s == d and d != 0:
                            hazard = True
        t.stalled = hazard
        if hazard:
            self.interlock_stalls += 1
        x = t.D + (3 if hazard else 1)
        if prev is not None:
            x = max(x, prev.XE + 1)
        t.X = x
        t.waits = False
        if m == "ecall":
            for p in self.toks[-3:]:
                if p.M == t.X or p.W == t.X:
                    t.waits = True
        if t.waits:
            self.ecall_waits += 1
        t.XE = t.X + (2 if t.waits else 0)
        t.M = t.XE + 1
        t.W = t.M + 1
        t.taken = False
        self.toks.append(t)
        # sequential successor is fetched when this one moves on to decode
        self.next_fetch = t.D
        return t

    def redirect(self, t):
        """t was a taken control transfer: the next instruction is fetched after its MEM cycle"""
        t.taken = True
        self.next_fetch = t.M + 1

    def total_cycles(self):
        return self.toks[-1].W if self.toks else 0


class NoInterlockMachine:
    """Interlock-free pipeline with data: every instruction reads its sources in its last decode
    cycle from a register file that contains exactly the writes of instructions whose write-back
    cycle is <= that cycle; ecalls read a7/a0 when they execute; memory is accessed in order."""

    def __init__(self, program, regs, mem, K):
        """regs, mem: private copies (symx Store forks) of the initial register file / memory"""
        self.program = program  # {address: (mnemonic, fields)}
        self.regs = regs
        self.memst = mem
        self.K = K
        self.timing = Timing(interlock=False)
        self.pending = []  # (W cycle, rd, value) in program order, not yet visible
        self.out = ""
        self.exit_code = None
        self.fault = None
        self.retired = []
        self.cut = False

    def _make_visible(self, cycle):
        while self.pending and self.pending[0][0] <= cycle:
            w, rd, value = self.pending.pop(0)
            self.regs.set(rd, value)

    def reg_at(self, r, cycle):
        """value of register r as seen by a read in `cycle` (writes with W <= cycle visible);
        read cycles are non-decreasing in program order, so visibility only grows"""
        self._make_visible(cycle)
        return self.regs.get(r)

    def reg_final(self, r):
        self._make_visible(10**9)
        return self.regs.get(r)

    def mem(self, a):
        return self.memst.abstract(a)

    def run(self, lookup):
        """lookup(pc) -> (mnemonic, fields) or None"""
        pc = 0
        n = 0
        while True:
            ins = lookup(pc)
            if ins is None:
                break
            if n >= self.K:
                self.cut = True
                break
            n += 1
            m, f = ins
            t = self.timing.add(m, f)
            read_cycle = t.X - 1 if m != "ecall" else t.XE
            eff = R.step(m, f, pc, lambda r: self.reg_at(r, read_cycle), self.mem)
            if eff.fault is not None:
                self.fault = (pc, eff.fault, eff.touched)
                break
            self.retired.append(pc)
            if eff.reg is not None:
                rd, v = eff.reg
                if rd != 0:
                    self.pending.append((t.W, rd, v))
            for a, b in eff.mem:
                self.memst.set(a, b)
            self.out += eff.out
            if eff.exit_code is not None:
                self.exit_code = eff.exit_code
                break
            if eff.taken_branch or m in ("jal", "jalr"):
                self.timing.redirect(t)
            pc = eff.pc
        return self
