"""C13 Lifecycle: done is stable, run equals stepping, reload equals a fresh load.

* done-stable / step-return: at the end of every explored path of the bounded symbolic programs
  (both pipeline modes) further step() and run() calls leave the deep snapshot unchanged and
  step() returns False; on every step the return value equals `not is_done()` afterwards.
  Synthetic done states: any mid-run pipeline state with an exit code set.
* run() == step() until done: two copies from the same symbolic start (RISC-V both modes, TOY).
* empty programs are done immediately; reload == fresh load (RISC-V with/without caches, TOY)."""
from __future__ import annotations

from checks import progs
from checks.progs import ALPHABET, REDUCED, skeletons
from checks.snap import riscv_snapshot, deep
from symx.ops import cond, val

PROPERTY = "C13"
LEVEL = "model_checking"
TRUSTED = ["z3 5.1 QF_UFBV", "fixedint model (validated each run)", "CPython renderers (ecall output placeholders)"]
ASSUMPTIONS = [
    "programs and bounds of C02 (L<=2, K = 2L+2, <= 2 dynamic ecalls); loops beyond the cap are cut",
    "run(): an activation that takes more than 3000 decisions is reported as non-terminating for a path on which stepping terminated",
    "timer fields of the performance metrics are excluded from snapshots",
    "reload clause: program texts are enumerated shapes (incl. texts failing at every parser stage), numerics concrete in this check (symbolic numerics of loaded programs are the subject of C04/C05)",
]
RULE = "one case = one feasible path of a bounded symbolic program driven by two call patterns, or one (A,B) pair of program texts for the reload clause"
MAXTASKS = 20


def bounds(tier):
    return {"programs": "one-instruction programs of all classes, all L=2 skeletons over the alphabet" + ("" if tier == "quick" else ", L=3 over the reduced alphabet"), "toy_steps": 2, "reload_pairs": "all ordered pairs of the text list, 3 cache configurations"}


def claim_same(e, tag, A, B):
    for k in A:
        e.claim_eq("%s:%s" % (tag, k), A[k], B[k])


def h_lifecycle(e, mnems, mode, K=None):
    """stepping vs run() from the same start; done-stability at the end"""
    from symx.state import mk_riscv, place_instructions
    from symx.core import PathCut
    from architecture_simulator.simulation.runtime_errors import InstructionExecutionException

    K = K or progs.k_for(len(mnems))
    if any(m == "ecall" for m in mnems) and e.mode == "sym":
        e.site_bounds["process_ecall"] = progs.ECALL_SITE_BOUND
    items, fields = progs.build_program(e, mnems)
    a = mk_riscv(e, mode=mode)
    b = mk_riscv(e, mode=mode)
    place_instructions(e, a, items)
    place_instructions(e, b, items)
    q = e.int("q", 0, 31)
    qa = e.int("qa", 0, 2**32 - 1)
    # A: stepping (bounded), checking the return value of every step
    steps = 0
    fault = None
    limit = K if mode == "single_stage_pipeline" else progs.cycle_bound(K)
    e.claim("empty-iff-done-initially", a.sim.is_done() == (len(mnems) == 0))
    while not a.sim.is_done():
        if steps >= limit:
            raise PathCut("more than %d steps" % limit)
        try:
            ret = a.sim.step()
        except InstructionExecutionException as ex:
            fault = ex
            break
        steps += 1
        e.claim("step-returns-not-done", ret == (not a.sim.is_done()), {"ret": ret, "step": steps})
    e.observe("steps", steps)
    e.observe("fault", fault is not None)
    # B: run()
    if e.mode == "sym":
        e.site_bounds["run"] = 3000
    bfault = None
    try:
        b.sim.run()
    except InstructionExecutionException as ex:
        bfault = ex
    except PathCut as ex:
        if "run" in str(ex):
            e.claim("run-terminates-when-stepping-does", False, {"steps": steps})
            return
        raise
    e.site_bounds.pop("run", None)
    e.claim("same-fault", (fault is None) == (bfault is None))
    if fault is not None and bfault is not None:
        e.claim_eq("fault-address", bfault.address, fault.address)
    A = riscv_snapshot(a, q, qa, items)
    B = riscv_snapshot(b, q, qa, items)
    e.observe("pc", A["pc"])
    e.observe("reg[q]", A["reg[q]"])
    claim_same(e, "run==stepping", A, B)
    if fault is not None:
        return "fault"
    # done is stable
    e.claim("done-at-end", a.sim.is_done())
    r1 = a.sim.step()
    e.claim("step-on-done-returns-false", r1 is False)
    A2 = riscv_snapshot(a, q, qa, items)
    claim_same(e, "step-on-done-inert", A, A2)
    a.sim.run()
    a.sim.step()
    A3 = riscv_snapshot(a, q, qa, items)
    claim_same(e, "run-on-done-inert", A, A3)
    e.claim("canary:pc", cond("==", val(A3["pc"]), val(A["pc"]) + 4))


def h_exit_midrun(e, mnems, mode, k):
    """a state reached after k steps in which an exit code appears: done, and inert"""
    from symx.state import mk_riscv, place_instructions
    from architecture_simulator.simulation.runtime_errors import InstructionExecutionException

    if any(m == "ecall" for m in mnems) and e.mode == "sym":
        e.site_bounds["process_ecall"] = progs.ECALL_SITE_BOUND
    items, fields = progs.build_program(e, mnems)
    a = mk_riscv(e, mode=mode)
    place_instructions(e, a, items)
    q = e.int("q", 0, 31)
    qa = e.int("qa", 0, 2**32 - 1)
    for _ in range(k):
        if a.sim.is_done():
            break
        try:
            a.sim.step()
        except InstructionExecutionException:
            return "fault"
    a.sim.state.exit_code = e.int("code", 0, 2**32 - 1)
    e.claim("done-when-exit-code-set", a.sim.is_done())
    A = riscv_snapshot(a, q, qa, items)
    r = a.sim.step()
    a.sim.run()
    e.claim("step-returns-false", r is False)
    A2 = riscv_snapshot(a, q, qa, items)
    claim_same(e, "inert-after-exit", A, A2)
    e.observe("pc", A["pc"])


def h_toy_run(e, steps=6, opcode=None):
    """TOY: run() == step() until done, from an arbitrary state whose program area is small"""
    from symx.state import ToyInputs, mk_toy
    from symx.core import PathCut
    from checks.c20 import snapshot as toy_snapshot

    inp = ToyInputs(e, ir_opcode=opcode)
    a, sa = mk_toy(e, inp)
    b, sb = mk_toy(e, inp)
    q = e.int("q", 0, 4095)
    n = 0
    while not a.is_done():
        if n >= steps:
            raise PathCut("more than %d TOY steps" % steps)
        ret = a.step()
        n += 1
        e.claim("step-returns-not-done", ret == (not a.is_done()))
    if e.mode == "sym":
        e.site_bounds["run"] = 3000
    try:
        b.run()
    except PathCut as ex:
        if "run" in str(ex):
            e.claim("run-terminates-when-stepping-does", False)
            return
        raise
    e.site_bounds.pop("run", None)
    A = toy_snapshot(e, a, sa, q, False)
    B = toy_snapshot(e, b, sb, q, False)
    e.observe("accu", A["accu"])
    e.observe("steps", n)
    for k in A:
        e.claim_eq("toy-run==stepping:" + k, A[k], B[k])
    # done stable
    r = a.step()
    a.run()
    A2 = toy_snapshot(e, a, sa, q, False)
    e.claim("toy-step-on-done-false", r is False)
    for k in A:
        e.claim_eq("toy-done-inert:" + k, A[k], A2[k])


# ---- load clauses (concrete texts) --------------------------------------------------------------

EMPTY_TEXTS = ["", "\n\n", "   ", "# only a comment", "\n# c\n   # d\n", ".text", ".data\n.text", ".data\nx: .word 1\n.text", "\t\n"]

RISCV_TEXTS = [
    "",
    "addi x1, x0, 5\nadd x2, x1, x1",
    ".data\nv: .word 1, 2, 3\nb: .byte 7\n.text\nla x1, v\nlw x2, v[1]\nsw x2, v[2], x3\nli x4, 0x12345\necall",
    "loop: addi x1, x1, 1\nbeq x1, x2, loop\njal x0, loop",
    ".data\ns: .string \"hi\"\nh: .half 1, 2\nz: .zero 2\nb: .byte 9\n.text\nlb x1, s\nsh x1, h[1], x2",
    ".data\nt: .string \"x\"\n.text\nbeq x0, x0, nowhere",  # data written, then label error
    "addi x1, x0,",  # syntax error
    "beq x0, x0, nowhere",  # unknown label
    "a: nop\na: nop",  # duplicate label
    ".data\nv: .word 1\nv: .word 2\n.text\nnop",  # duplicate variable
    "lw x1, undefinedvar",  # unknown variable
    "beq x0, x0, 3",  # odd immediate
    ".data\n.data\n",  # directive error
    ".data\nadd x1, x2, x3\n",  # instruction in data
    "# nothing\n",
]

TOY_TEXTS = [
    "",
    "LDA 0x010\nADD 0x011\nSTO 0x012",
    ".data\nn: .word 5\nr: .word 0, 1\n.text\nloop: LDA n\nBRZ end\nDEC\nSTO n\nZRO\nBRZ loop\nend: NOP",
    "LDA nowhere",
    "x: NOP\nx: NOP",
    "BOGUS 1",
    ".data\nINC\n",
    "# c\n",
]


def _load(sim, text):
    try:
        sim.load_program(text)
        return None
    except Exception as ex:  # noqa
        return type(ex).__name__


def riscv_load_snapshot(sim):
    st = sim.state
    im = st.instruction_memory
    lower_im = getattr(im, "instruction_memory", im)
    mem = st.memory
    lower = getattr(mem, "memory", mem)
    s = {
        "instructions": [(a, repr(i), type(i).__name__) for a, i in sorted(lower_im.instructions.items())],
        "memory": {k: val(v) for k, v in sorted(lower.memory_file.items())},
        "pc": st.program_counter,
        "output": st.output,
        "exit_code": st.exit_code,
        "regs": [val(r) for r in st.register_file.registers],
        "metrics": deep(st.performance_metrics),
        "has_started": sim.has_started,
        "done": sim.is_done(),
        "has_instructions": sim.has_instructions(),
        "pipeline": [deep(pr) for pr in st.pipeline.pipeline_registers],
    }
    from checks.snap import cache_snapshot

    if hasattr(mem, "cache"):
        s["dcache"] = cache_snapshot(mem)
    if hasattr(im, "cache"):
        s["icache"] = cache_snapshot(im)
    return s


def h_reload_riscv(e, ia, ib, mode, cachecfg, observe=False, again=False):
    from symx.state import cache_options
    from architecture_simulator.simulation.riscv_simulation import RiscvSimulation

    def mk():
        kw = {}
        if cachecfg:
            kind, repl = cachecfg
            kw["data_cache"] = cache_options(True, 1, 1, 2, kind, repl, 3)
            kw["instruction_cache"] = cache_options(True, 1, 0, 2, "wb", repl, 2)
        return RiscvSimulation(mode=mode, **kw)

    A, B = RISCV_TEXTS[ia], RISCV_TEXTS[ib]

    def look(s):
        """what a front end does between loads on a simulation that has not started: queries,
        and step()/run() when there is nothing to execute (both are no-ops then)"""
        if not observe:
            return
        s.is_done()
        s.has_instructions()
        s.get_register_entries()
        s.get_data_memory_entries()
        s.get_instruction_memory_entries()
        s.get_performance_metrics()
        if not s.has_instructions():
            s.step()
            s.run()

    s1 = mk()
    look(s1)
    if again:
        # three loads: the text loaded last was already loaded once before the other one
        _load(s1, B)
        look(s1)
    x0 = _load(s1, A)
    look(s1)
    x1 = _load(s1, B)
    s2 = mk()
    x2 = _load(s2, B)
    e.observe("exceptions", [x0, x1, x2])
    e.claim("not-started", not s1.has_started)
    e.claim("same-load-result", x1 == x2, {"reloaded": x1, "fresh": x2})
    S1, S2 = riscv_load_snapshot(s1), riscv_load_snapshot(s2)
    for k in S1:
        e.claim("reload==fresh:" + k, S1[k] == S2[k], {"reloaded": repr(S1[k])[:300], "fresh": repr(S2[k])[:300]})
    e.claim("canary:reload", S1["instructions"] == [(0, "x", "y")])
    # ... and both behave the same from there
    from architecture_simulator.simulation.runtime_errors import InstructionExecutionException

    def finish(s):
        n = 0
        try:
            while not s.is_done() and n < 400:
                s.step()
                n += 1
        except InstructionExecutionException as ex:
            return ("fault", n, repr(ex)[:120])
        return ("done" if s.is_done() else "running", n, None)

    r1, r2 = finish(s1), finish(s2)
    e.claim("run-after-reload==run-after-fresh-load", r1 == r2, {"reloaded": r1, "fresh": r2})
    F1, F2 = riscv_load_snapshot(s1), riscv_load_snapshot(s2)
    for k in F1:
        e.claim("final-after-reload==fresh:" + k, F1[k] == F2[k], {"reloaded": repr(F1[k])[:300], "fresh": repr(F2[k])[:300]})


def h_reload_toy(e, ia, ib, again=False):
    from architecture_simulator.simulation.toy_simulation import ToySimulation

    A, B = TOY_TEXTS[ia], TOY_TEXTS[ib]
    s1 = ToySimulation()
    if again:
        _load(s1, B)
    _load(s1, A)
    x1 = _load(s1, B)
    s2 = ToySimulation()
    x2 = _load(s2, B)
    e.observe("exceptions", [x1, x2])
    e.claim("same-load-result", x1 == x2)

    def snap(s):
        st = s.state
        return {
            "mem": {k: val(v) for k, v in sorted(st.memory.memory_file.items())},
            "accu": val(st.accu),
            "pc": val(st.program_counter),
            "max_pc": st.max_pc,
            "ir": None if st.loaded_instruction is None else repr(st.loaded_instruction),
            "metrics": deep(st.performance_metrics),
            "vis": deep(st.visualisation_values),
            "next_cycle": s.next_cycle,
            "has_started": s.has_started,
            "done": s.is_done(),
            "has_instructions": s.has_instructions(),
            "cur": st.address_of_current_instruction,
            "nxt": st.address_of_next_instruction,
        }

    S1, S2 = snap(s1), snap(s2)
    for k in S1:
        e.claim("toy-reload==fresh:" + k, S1[k] == S2[k], {"reloaded": repr(S1[k])[:300], "fresh": repr(S2[k])[:300]})
    e.claim("canary:reload", S1["mem"] == {-1: 0})


def h_empty(e, kind, it):
    from architecture_simulator.simulation.riscv_simulation import RiscvSimulation
    from architecture_simulator.simulation.toy_simulation import ToySimulation

    text = EMPTY_TEXTS[it]
    sim = ToySimulation() if kind == "toy" else RiscvSimulation(mode=kind)
    x = _load(sim, text)
    e.observe("exception", x)
    e.claim("loads", x is None, {"exception": x})
    e.claim("done-immediately", sim.is_done())
    e.claim("no-instructions", not sim.has_instructions())
    r = sim.step() if kind != "toy" or sim.is_done() else None
    e.claim("step-returns-false", r is False or r is None)
    sim.run()
    e.claim("still-done", sim.is_done())
    e.claim("canary:done", not sim.is_done())


HARNESSES = {"lifecycle": h_lifecycle, "exit_midrun": h_exit_midrun, "toy_run": h_toy_run, "reload_riscv": h_reload_riscv, "reload_toy": h_reload_toy, "empty": h_empty}

MODES = ["single_stage_pipeline", "five_stage_pipeline"]


def jobs(tier, seed):
    from checks import c02
    from checks.c01 import MNEMONICS

    out = []
    common = {"timeout_ms": 10000, "cut_on_undecided": True}
    for mode in MODES:
        ms = "1" if mode.startswith("single") else "5"
        for m in MNEMONICS:
            out.append(dict(common, label="life%s:%s" % (ms, m), harness="lifecycle", args={"mnems": [m], "mode": mode}, cost=3))
        for sk in skeletons(ALPHABET, 2):
            if tier == "quick" and c02.heavy(sk):
                continue
            out.append(dict(common, label="life%s:%s" % (ms, ",".join(sk)), harness="lifecycle", args={"mnems": sk, "mode": mode}, cost=10, validate_every=2, optional=c02.heavy(sk)))
        if tier == "thorough":
            for sk in skeletons(REDUCED, 3):
                out.append(dict(common, label="life%s:%s" % (ms, ",".join(sk)), harness="lifecycle", args={"mnems": sk, "mode": mode}, cost=30, validate_every=5, optional=True))
        for sk in (["add", "lw", "beq"], ["jal", "addi", "sw"], ["ecall", "add", "add"], ["lw", "jalr", "add"]):
            for k in (1, 2, 3, 4):
                out.append(dict(common, label="exit%s-%d:%s" % (ms, k, ",".join(sk)), harness="exit_midrun", args={"mnems": sk, "mode": mode, "k": k}, cost=8, validate_every=3))
    for k in range(13):
        out.append(dict(common, label="toy-run-op%d" % k, harness="toy_run", args={"steps": 2, "opcode": k}, cost=100, validate_every=10))
    for kind in MODES + ["toy"]:
        for it in range(len(EMPTY_TEXTS)):
            out.append({"label": "empty-%s-%d" % (kind[:4], it), "harness": "empty", "args": {"kind": kind, "it": it}, "cost": 1})
    cfgs = [None, ("wb", "lru"), ("wt", "plru")]
    for ia in range(len(RISCV_TEXTS)):
        for ib in range(len(RISCV_TEXTS)):
            for ci, cfg in enumerate(cfgs):
                mode = MODES[(ia + ib + ci) % 2]
                observe = (ia + 2 * ib + ci) % 2 == 0
                out.append({"label": "reload-%d-%d-c%d%s" % (ia, ib, ci, "-obs" if observe else ""), "harness": "reload_riscv", "args": {"ia": ia, "ib": ib, "mode": mode, "cachecfg": cfg, "observe": observe}, "cost": 1})
    for ia in range(len(TOY_TEXTS)):
        for ib in range(len(TOY_TEXTS)):
            out.append({"label": "toyreload-%d-%d" % (ia, ib), "harness": "reload_toy", "args": {"ia": ia, "ib": ib}, "cost": 1})
    # histories of three loads (B, A, B): the text loaded last had been loaded before
    for ia in range(len(RISCV_TEXTS)):
        for ib in range(len(RISCV_TEXTS)):
            if ia == ib:
                continue
            ci = (ia + ib) % 3
            out.append({"label": "reload3-%d-%d-c%d" % (ia, ib, ci), "harness": "reload_riscv", "args": {"ia": ia, "ib": ib, "mode": MODES[(ia + ib) % 2], "cachecfg": cfgs[ci], "observe": (ia + ib) % 4 == 0, "again": True}, "cost": 1})
    for ia in range(len(TOY_TEXTS)):
        for ib in range(len(TOY_TEXTS)):
            if ia != ib:
                out.append({"label": "toyreload3-%d-%d" % (ia, ib), "harness": "reload_toy", "args": {"ia": ia, "ib": ib, "again": True}, "cost": 1})
    return out


BUDGET = {"quick": None, "thorough": 12 * 60}

if __name__ == "__main__":
    from symx import runner
    import checks.c13 as me

    runner.main(me)
