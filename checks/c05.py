"""C05 Assembler data segment: layout, initial values, name[i] addressing, li constants.

The real load_program runs on program texts whose numeric literals are symbolic (sentinel
literals mapped back by the rebound int()); the emitted instructions are compared with the
reference assembler (checks/asm.py) and then *executed* by the real single-cycle simulation from
arbitrary register contents to check the documented effect."""
from __future__ import annotations

from checks import asm
from checks.asm import Text, DATA_START
from symx.ops import zx, sx, val, cond, land, lor, lnot

PROPERTY = "C05"
LEVEL = "model_checking"
TRUSTED = [
    "z3 5.1 QF_UFBV",
    "fixedint model (validated each run)",
    "pyparsing's matching of a concrete line; a decimal / 0x literal stands for any literal of the same lexical class (sentinel literals; the conversion base is checked against the spelling)",
    "checks/asm.py reference assembler (documented layout rules)",
]
ASSUMPTIONS = [
    "li constants in [-2^33, 2^33] (every low-12/high-20 carry case, negative and over-wide constants)",
    "element values in [-2^33, 2^33]; .zero n with n in [0, 6]; element indices in [0, 7] for the layout harness and in [0, 2^18] for the far-element harness (addresses up to 2^14 + 2^20: every low-12-bit pattern and lui carry of the address split)",
    "declaration sequences: all sequences of <= 2 (quick) / 3 (thorough) declarations over {.byte x1, .byte x3, .half x2, .word x1, .word x2, .string len 0/1/5, .zero n}",
    "literals are spelled in decimal (and 0x for the documented example); other spellings are covered lexically by C04/C15",
]
RULE = "one case = one feasible path of load_program + execution for one text skeleton with all numerics symbolic"
MAXTASKS = 40

REGS = ["x5", "t1", "a0", "x31", "s11", "x0", "ra"]


def bounds(tier):
    return {"declarations_per_segment": 2 if tier == "quick" else 3, "li_constant": "[-2^33, 2^33] symbolic", "registers": REGS}


def run_to_end(sim, limit=40):
    n = 0
    while not sim.is_done() and n < limit:
        sim.step()
        n += 1
    return n


def h_li(e, reg):
    from symx.state import mk_riscv

    T = Text(e)
    c = e.int("c", -(2**33), 2**33)
    c0 = mk_riscv(e, mem="empty")
    sim = c0.sim
    sim.load_program("li %s, %s" % (reg, T.num(c)))
    exp, labels, var, mem = asm.expand([("ins", None, "li", (reg, c))], e)
    asm.claim_program(e, sim, exp)
    n = run_to_end(sim)
    rd = asm.regno(reg)
    q = e.int("q", 0, 31)
    e.observe("steps", n)
    e.observe("reg", c0.reg(rd))
    e.claim("terminates", sim.is_done())
    want = zx(c, 32) if rd != 0 else 0
    e.claim_eq("li-leaves-constant", c0.reg(rd), want)
    e.claim("canary:li", cond("==", c0.reg(rd), zx(c + 1, 32)))
    e.claim("li-other-registers-unchanged", lor(cond("==", q, rd), cond("==", c0.reg(q), c0.regs0.get(q))))


DECLS = {
    "b1": ("byte", 1),
    "b3": ("byte", 3),
    "h2": ("half", 2),
    "w1": ("word", 1),
    "w2": ("word", 2),
    "s0": ("string", ""),
    "s1": ("string", "A"),
    "s5": ("string", "He lo"),
    "sq": ("string", "'q'"),  # quote characters of the other kind at both edges of the content
    "z": ("zero", None),
}


def mk_decls(e, names):
    items = []
    for k, d in enumerate(names):
        kind, n = DECLS[d]
        nm = "v%d" % k
        if kind == "string":
            items.append(("data", nm, "string", n))
        elif kind == "zero":
            items.append(("data", nm, "zero", e.int("n%d" % k, 0, 6)))
        else:
            items.append(("data", nm, kind, [e.int("d%d_%d" % (k, j), -(2**33), 2**33) for j in range(n)]))
    return items


def memory_bytes(sim):
    lower = sim.state.memory
    lower = getattr(lower, "memory", lower)
    return {k: val(v) for k, v in lower.memory_file.items()}


def symbolic_memory_after_load(e, sim):
    """replace the loaded (real dict) data memory by a symbolic store with the same contents, so
    that the program can access symbolic addresses"""
    from symx.containers import Store, SymMem, SymRange
    from symx.state import fx

    lower = getattr(sim.state.memory, "memory", sim.state.memory)
    st = Store(e, "Mloaded", 32, 8, presence=True, zero_init=True)
    for k, v in lower.memory_file.items():
        st.set(k, val(v))
    lower.memory_file = SymMem(e, st, fx().UInt8, total=False)
    if e.mode == "sym":
        lower.address_range = SymRange(lower.address_range.start, lower.address_range.stop)
    return st


def h_far(e, kind, n, access):
    """element access far into an array: name[i] with i symbolic in [0, 2^18] (all carry cases of
    the lui/addi address split), executed on a symbolic copy of the loaded memory"""
    from symx.state import mk_riscv
    from symx.ops import ite

    T = Text(e)
    items = [("data", "pad", "byte", [e.int("pad", 0, 255)]), ("data", "arr", kind, [e.int("d%d" % j, -(2**33), 2**33) for j in range(n)])]
    idx = e.int("idx", 0, 2**18)
    if access == "la":
        items.append(("ins", None, "la", ("x7", "arr", idx)))
    elif access in ("lw", "lb", "lhu"):
        items.append(("ins", None, access, ("var", "x7", "arr", idx)))
    else:
        items.append(("ins", None, access, ("var", "x9", "arr", idx, "x7")))
    c0 = mk_riscv(e, mem="empty")
    sim = c0.sim
    sim.load_program(asm.render(items, T))
    exp, labels, var, mem = asm.expand(items, e)
    asm.claim_program(e, sim, exp)
    st = symbolic_memory_after_load(e, sim)
    base, size = var["arr"]
    addr = zx(base + size * idx, 32)
    x9 = c0.regs0.get(9)
    run_to_end(sim)
    e.observe("x7", c0.reg(7))
    e.claim("terminates", sim.is_done())
    if access == "la":
        e.claim_eq("la-yields-element-address", c0.reg(7), addr)
    elif access in ("lw", "lb", "lhu"):
        nb, signed = {"lw": (4, False), "lb": (1, True), "lhu": (2, False)}[access]
        v = 0
        for i in range(nb):
            b = 0
            for k2, bv in mem.items():
                b = ite(cond("==", zx(addr + i, 32), k2), bv, b)
            v = v | (b << (8 * i))
        e.claim_eq("load-by-name-yields-element", c0.reg(7), zx(sx(v, 8 * nb), 32) if signed else v)
    else:
        nb = {"sw": 4, "sh": 2, "sb": 1}[access]
        for i in range(nb):
            e.claim_eq("store-by-name-byte-%d" % i, st.abstract(zx(addr + i, 32)), (x9 >> (8 * i)) & 0xFF)
        e.claim_eq("store-by-name-address-register", c0.reg(7), addr)
    e.claim("canary:far", cond("==", c0.reg(7), zx(addr + 1, 32)) if access in ("la", "sw", "sb", "sh") else False)


def h_layout(e, decls, data_first, access, dcache=None):
    """declaration sequence `decls`; then one access pseudo-instruction on the last variable:
    access in la / lw / lb / lhu / sw / sb (by name with symbolic index).  With dcache =
    (kind, repl, index_bits, block_bits, ways) the simulation has that data cache and the initial
    values are additionally read through it."""
    from symx.state import mk_riscv, cache_options

    T = Text(e)
    items = mk_decls(e, decls)
    last = len(decls) - 1
    lastkind = DECLS[decls[last]][0]
    idx = e.int("idx", 0, 7)
    use_index = e.choose(2) == 1
    ix = idx if use_index else None
    if access == "la":
        items.append(("ins", None, "la", ("x7", "v%d" % last, ix)))
    elif access in ("lw", "lb", "lhu", "lh", "lbu"):
        items.append(("ins", None, access, ("var", "x7", "v%d" % last, ix)))
    else:
        items.append(("ins", None, access, ("var", "x9", "v%d" % last, ix, "x7")))
    if dcache is not None:
        kind, repl, ib, bb, ways = dcache
        c0 = mk_riscv(e, mem="empty", dcache=cache_options(True, ib, bb, ways, kind, repl, 0))
    else:
        c0 = mk_riscv(e, mem="empty")
    sim = c0.sim
    text = asm.render(items, T, data_first=data_first)
    sim.load_program(text)
    exp, labels, var, mem = asm.expand(items, e)
    asm.claim_program(e, sim, exp)
    got = memory_bytes(sim)
    # initial data: exactly the bytes of the reference layout (absent keys read as zero)
    keys = sorted(set(mem) | set(got))
    e.claim("data-bytes", True)
    for k in keys:
        e.claim_eq("byte@%d" % (k - DATA_START), got.get(k, 0), mem.get(k, 0))
    if dcache is not None:
        # the same initial values as seen through the memory system the program will use
        for k in keys:
            e.claim_eq("byte-through-cache@%d" % (k - DATA_START), sim.state.memory.read_byte(k, False), mem.get(k, 0))
    for name, (a, size) in var.items():
        e.claim("aligned-%s" % name, cond("==", a & 3, 0))
    e.observe("bytes", [got.get(k, 0) for k in keys][:24])
    # execute the access and check the documented effect
    base, size = var["v%d" % last]
    addr = zx(base + size * (ix if ix is not None else 0), 32)
    pre_regs = c0.regs0
    x9 = pre_regs.get(9)
    lower = getattr(sim.state.memory, "memory", sim.state.memory)
    n = None
    try:
        n = run_to_end(sim)
        fault = None
    except Exception as ex:  # noqa
        fault = ex
    e.observe("fault", type(fault).__name__ if fault else None)
    if fault is not None:
        return "fault"
    e.claim("terminates", sim.is_done())
    if access == "la":
        e.claim_eq("la-yields-element-address", c0.reg(7), addr)
        e.claim("canary:la", cond("==", c0.reg(7), zx(addr + size, 32)))
    elif access in ("lw", "lb", "lhu", "lh", "lbu"):
        nb, signed = {"lw": (4, False), "lb": (1, True), "lbu": (1, False), "lh": (2, True), "lhu": (2, False)}[access]
        v = 0
        for i in range(nb):
            b = 0
            for k2, bv in mem.items():
                b = __import__("symx.ops", fromlist=["ite"]).ite(cond("==", zx(addr + i, 32), k2), bv, b)
            v = v | (b << (8 * i))
        want = zx(sx(v, 8 * nb), 32) if signed else v
        e.claim_eq("load-by-name-yields-element", c0.reg(7), want)
    else:
        nb = {"sw": 4, "sh": 2, "sb": 1}[access]
        after = memory_bytes(sim)
        for i in range(nb):
            a_i = zx(addr + i, 32)
            ai = e.concretize(a_i) if e.mode == "sym" else int(a_i)
            e.claim_eq("store-by-name-byte-%d" % i, after.get(ai, 0), (x9 >> (8 * i)) & 0xFF)
        e.claim_eq("store-by-name-address-register", c0.reg(7), addr)
    return "ok"


EXAMPLE = """.data
 empty_array: .zero 64 # reserves space for 64 words (256 bytes)
 my_var1: .byte -128
 my_var2: .half 0x1234, 0b1010, 999
 my_var3: .word 0x12345678, 0b111
 text1: .string "Hello, World!" # ASCII byte array
.text
 la x1, my_var1 # load address of my_var1 into x1
 lh x2, my_var2 # load halfword from my_var2 into x2
 lh x3, my_var2[0] # same effect as above
 lh x4, my_var2[2] # x4 = 999
 lw x5, my_var3[1] # x5 = 0b111
 lb x6, text1[12] # x6 = '!'
"""


def documented_example():
    """the data-segment example of the help page, read from /repo's current working tree"""
    import html
    import os
    import re

    repo = os.environ.get("VERIF_REPO", "/repo")
    src = open(os.path.join(repo, "webgui/src/components/riscv/RiscvHelp.vue"), encoding="utf-8").read()
    for m in re.finditer(r"<pre[^>]*>(.*?)</pre", src, re.S):
        body = html.unescape(re.sub(r"<[^>]+>", "", m.group(1)))
        if "empty_array" in body and ".data" in body:
            return body
    return None


def h_example(e, data_first):
    """the documented example program yields the register values its own comments document"""
    import re
    from architecture_simulator.simulation.riscv_simulation import RiscvSimulation

    text = documented_example()
    e.claim("documented-example-found", text is not None)
    if text is None:
        return
    # expectations written in the example's comments:  <instr> xN, ...  # xN = <value>
    want = {}
    for line in text.splitlines():
        m = re.search(r"#\s*x(\d+)\s*=\s*(0b[01]+|0x[0-9a-fA-F]+|\d+|'.')\s*$", line)
        if m:
            v = m.group(2)
            want[int(m.group(1))] = ord(v[1]) if v.startswith("'") else int(v, 0)
    e.claim("documented-values-found", len(want) >= 3, {"want": want})
    if not data_first:
        d, t = text.split(".text")
        text = ".text" + t + "\n" + d
    sim = RiscvSimulation()
    sim.load_program(text)
    sim.run()
    r = [int(x) for x in sim.state.register_file.registers]
    e.observe("regs", r[:7])
    for k, v in sorted(want.items()):
        e.claim("documented-x%d" % k, r[k] == v, {"got": r[k], "documented": v})
    e.claim("x1=&my_var1", r[1] == 2**14 + 256, {"x1": r[1]})
    e.claim("x2=x3=first-half", r[2] == r[3] == 0x1234)
    e.claim("canary:example", r[6] == 0)


HARNESSES = {"li": h_li, "layout": h_layout, "example": h_example, "far": h_far}


def jobs(tier, seed):
    import itertools

    out = []
    for reg in REGS:
        out.append({"label": "li-" + reg, "harness": "li", "args": {"reg": reg}, "cost": 5})
    L = 2 if tier == "quick" else 3
    seqs = []
    for n in range(1, L + 1):
        seqs += [list(t) for t in itertools.product(sorted(DECLS), repeat=n)]
    accesses = ["la", "lw", "lb", "lhu", "sw", "sb"]
    for i, sq in enumerate(seqs):
        if tier == "quick" and len(sq) == 2 and (i + seed) % 3 != 0:
            continue
        if tier == "thorough" and len(sq) == 3 and (i + seed) % 4 != 0:
            continue
        acc = accesses[(i + seed) % len(accesses)]
        for data_first in ((True, False) if len(sq) == 1 else ((i % 2 == 0),)):
            out.append({"label": "layout-%s-%s-%s" % (".".join(sq), "df" if data_first else "tf", acc), "harness": "layout", "args": {"decls": sq, "data_first": data_first, "access": acc}, "cost": 4 * len(sq), "validate_every": 2})
    for sq in (["z"], ["z", "w1"], ["b3", "z"], ["w2"], ["h2"], ["b3"], ["s5"]):
        for acc in accesses:
            out.append({"label": "access-%s-%s" % (".".join(sq), acc), "harness": "layout", "args": {"decls": sq, "data_first": True, "access": acc}, "cost": 6, "validate_every": 2})
    CCFG = [("wb", "lru", 0, 1, 1), ("wb", "plru", 1, 2, 2), ("wt", "lru", 0, 1, 2), ("wb", "lru", 0, 0, 2)]
    cseqs = [["h2", "w1"], ["b1", "w1"], ["w1", "h2"], ["s1", "w2"], ["b3", "b3"], ["z", "h2"], ["w2", "s5"], ["h2", "b1", "w1"]]
    for i, sq in enumerate(cseqs):
        for j, cfg in enumerate(CCFG):
            if tier == "quick" and (i + j + seed) % 2 != 0:
                continue
            acc = ("lw", "lb", "lhu")[(i + j) % 3]
            out.append({"label": "cached-%s-%s-%s" % (".".join(sq), "".join(map(str, cfg)), acc), "harness": "layout", "args": {"decls": sq, "data_first": (i + j) % 3 != 0, "access": acc, "dcache": list(cfg)}, "cost": 8, "validate_every": 2})
    for kind, n in (("word", 2), ("byte", 3), ("half", 1)):
        for acc in ("la", "lw", "lb", "lhu", "sw", "sb", "sh"):
            out.append({"label": "far-%s%d-%s" % (kind, n, acc), "harness": "far", "args": {"kind": kind, "n": n, "access": acc}, "cost": 6, "validate_every": 1})
    for df in (True, False):
        out.append({"label": "example-%s" % ("df" if df else "tf"), "harness": "example", "args": {"data_first": df}, "cost": 1})
    return out


def classify(job, label, model):
    if job["harness"] == "layout" and "z" in job["args"]["decls"] and job["args"]["decls"][-1] == "z":
        return "C05:zero-element-stride"
    return "C05:%s:%s" % (job["label"], label)


if __name__ == "__main__":
    from symx import runner
    import checks.c05 as me

    runner.main(me)
