"""Bounded symbolic programs: shared by C02, C07, C08, C13, C16 and the program-level clauses of
C03/C09/C11.  A program *skeleton* is a sequence of mnemonics; every register index, immediate
(incl. branch/jump displacements), register content and memory byte is symbolic, so one explored
path stands for every concrete program and input with that control skeleton."""
from __future__ import annotations

import itertools

from refs import riscv_ref as R
from symx.ops import zx, sx

ALPHABET = ["add", "addi", "lw", "sw", "lb", "sb", "beq", "blt", "jal", "jalr", "lui", "auipc", "ecall", "mul"]
REDUCED = ["add", "lw", "sw", "beq", "jal", "jalr", "ecall"]
ECALL_SITE_BOUND = 16  # decisions per activation of ECALL.process_ecall (>= 3 string characters)
K_DEFAULT = 12
MAX_DYNAMIC_ECALLS = 2  # per path (each ecall forks over the whole service table)


def k_for(L):
    """dynamic instruction cap: one complete re-execution of the program after a backward transfer"""
    return 2 * L + 2


def skeletons(alphabet, length):
    return [list(t) for t in itertools.product(alphabet, repeat=length)]


def sym_fields(e, m, p=""):
    """-> (constructor kwargs, architectural fields for the reference); p = name prefix"""
    k = R.fmt_of(m)
    I = lambda n, lo, hi: e.int(p + n, lo, hi)
    if k == "R":
        rd, rs1, rs2 = I("rd", 0, 31), I("rs1", 0, 31), I("rs2", 0, 31)
        return dict(rd=rd, rs1=rs1, rs2=rs2), dict(rd=rd, rs1=rs1, rs2=rs2)
    if k == "I":
        rd, rs1 = I("rd", 0, 31), I("rs1", 0, 31)
        imm = I("imm", -2048, 4095)
        return dict(rd=rd, rs1=rs1, imm=imm), dict(rd=rd, rs1=rs1, imm=sx(imm, 12))
    if k == "SH":
        rd, rs1 = I("rd", 0, 31), I("rs1", 0, 31)
        imm = I("imm", 0, 31)
        return dict(rd=rd, rs1=rs1, imm=imm), dict(rd=rd, rs1=rs1, imm=imm)
    if k == "S":
        rs1, rs2 = I("rs1", 0, 31), I("rs2", 0, 31)
        imm = I("imm", -2048, 4095)
        return dict(rs1=rs1, rs2=rs2, imm=imm), dict(rs1=rs1, rs2=rs2, imm=sx(imm, 12))
    if k == "B":
        rs1, rs2 = I("rs1", 0, 31), I("rs2", 0, 31)
        h = I("immh", -2048, 4095)
        return dict(rs1=rs1, rs2=rs2, imm=2 * h), dict(rs1=rs1, rs2=rs2, imm=sx(2 * h, 13))
    if k == "U":
        rd = I("rd", 0, 31)
        imm = I("imm", -(2**19), 2**20 - 1)
        return dict(rd=rd, imm=imm), dict(rd=rd, imm=sx(imm, 20))
    if k == "J":
        rd = I("rd", 0, 31)
        h = I("immh", -(2**19), 2**20 - 1)
        return dict(rd=rd, imm=2 * h, abs_addr=0), dict(rd=rd, imm=sx(2 * h, 21))
    if k == "E":
        return dict(), dict()
    raise KeyError(m)


def build_program(e, mnems):
    from architecture_simulator.isa.riscv.rv32i_instructions import instruction_map

    items, fields = [], []
    for i, m in enumerate(mnems):
        kw, f = sym_fields(e, m, "i%d_" % i)
        items.append((4 * i, instruction_map[m](**kw)))
        fields.append(f)
    return items, fields


class Run:
    """Outcome of running one simulation to completion."""

    def __init__(self):
        self.retired = []  # addresses in retirement order
        self.fault = None
        self.steps = 0
        self.nonterminating = False
        self.ecalls = 0
        self.decode_stalls = 0
        self.per_step = []  # five-stage: (retired address | None, cycles, stalls, flushes) after each step
        self.ctx = None


def run_single(e, c, K, on_step=None):
    from symx.core import PathCut
    from architecture_simulator.simulation.runtime_errors import InstructionExecutionException

    sim = c.sim
    r = Run()
    r.ctx = c
    while not sim.is_done():
        if r.steps >= K:
            raise PathCut("more than %d executed instructions" % K)
        pc = sim.state.program_counter
        try:
            sim.step()
        except InstructionExecutionException as ex:
            r.fault = ex
            break
        r.steps += 1
        r.retired.append(pc)
        if on_step is not None:
            on_step(sim, r)
    return r


def run_five(e, c, max_cycles, on_step=None, K=None):
    from symx.core import PathCut
    from architecture_simulator.simulation.runtime_errors import InstructionExecutionException
    from architecture_simulator.isa.riscv.instruction_types import EmptyInstruction

    sim = c.sim
    r = Run()
    r.ctx = c
    pm = sim.state.performance_metrics
    while not sim.is_done():
        if r.steps >= max_cycles:
            r.nonterminating = True
            break
        try:
            sim.step()
        except InstructionExecutionException as ex:
            r.fault = ex
            break
        r.steps += 1
        pr = sim.state.pipeline.pipeline_registers[4]
        a = None if isinstance(pr.instruction, EmptyInstruction) else pr.address_of_instruction
        if a is not None:
            r.retired.append(a)
            if K is not None and len(r.retired) > K:
                raise PathCut("more than %d executed instructions" % K)
            if pr.instruction.mnemonic == "ecall":
                r.ecalls += 1
                if r.ecalls > MAX_DYNAMIC_ECALLS:
                    raise PathCut("more than %d executed ecalls" % MAX_DYNAMIC_ECALLS)
        r.per_step.append((a, pm.cycles, pm.stalls, pm.flushes))
        stl = sim.state.pipeline.stalled
        if stl is not None and stl[0] == 1:
            r.decode_stalls += 1
        if on_step is not None:
            on_step(sim, r)
    return r


def setup_pair(e, mnems, detect=True, dcache=None, icache=None, dcache5=None, icache5=None, same_cache=True):
    """Two real simulations (single-cycle, five-stage) on the same symbolic initial state and
    the same symbolic program."""
    from symx.state import mk_riscv, place_instructions

    if any(m == "ecall" for m in mnems) and e.mode == "sym":
        e.site_bounds["process_ecall"] = ECALL_SITE_BOUND
    items, fields = build_program(e, mnems)
    c1 = mk_riscv(e, mode="single_stage_pipeline", dcache=dcache, icache=icache)
    c5 = mk_riscv(e, mode="five_stage_pipeline", detect=detect, dcache=dcache if same_cache else dcache5, icache=icache if same_cache else icache5)
    place_instructions(e, c1, items)
    place_instructions(e, c5, items)
    return c1, c5, items, fields


def cycle_bound(K):
    # per retired instruction at most 1 issue + 2 interlock/drain + 3 redirect cycles, plus fill
    return 5 + 6 * (K + 1)
