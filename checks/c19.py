"""C19 TOY encoding round-trips and the TOY assembler places code, data and labels."""
from __future__ import annotations

import itertools

from checks.asm import Text
from refs import toy_ref as T
from symx.ops import zx, val, cond, land, lor

PROPERTY = "C19"
LEVEL = "model_checking"
TRUSTED = [
    "z3 5.1 QF_UFBV",
    "fixedint model (validated each run)",
    "pyparsing's matching of a concrete line; a decimal / 0x literal stands for any literal of the same lexical class (sentinel literals; conversion base checked against the spelling)",
    "the reference placement rules written in this file (instruction i at address i; variables downward from 4095 in declaration order, elements ascending; max_pc = number of instructions - 1)",
]
ASSUMPTIONS = [
    "encoding: the instruction word is symbolic over [-2^20, 2^20] (all 2^16 words and out-of-range integers)",
    "assembler: all sequences of <= 2 (quick) / 3 (thorough) text lines over 8 line shapes with a label placed at every position, crossed with 0..2 declarations of 1..3 values, in both segment orders; all numbers symbolic (addresses in [0,4095] plus out-of-range operands up to 2^16, values in [0, 2^17])",
    "documented examples: sum 1..n with n symbolic in [0,4]; self-modifying tuple read with symbolic tuple values",
]
RULE = "one case = one feasible path of from_integer/int or of ToySimulation.load_program (+ run for the examples) with symbolic numerics"
MAXTASKS = 40


def bounds(tier):
    return {"text_lines": 2 if tier == "quick" else 3, "declarations": "0..2", "example_n": "0..4"}


def h_decode(e):
    """every word decodes to the instruction its opcode denotes; encode(decode(w)) == w mod 2^16 for opcodes <= 12"""
    from architecture_simulator.isa.toy.toy_instructions import ToyInstruction

    w = e.int("w", -(2**20), 2**20)
    ins = ToyInstruction.from_integer(w)
    k = ins.opcode
    op = (w >> 12) & 0xF
    e.observe("class", type(ins).__name__)
    e.observe("int", int(ins) if e.mode != "sym" else val(ins.to_integer()))
    e.claim("opcode", cond("==", op, k) if k < 12 else cond(">=", op, 12))
    e.claim("class", type(ins).__name__ == T.MNEMONIC[min(k, 12)])
    e.claim_eq("address-field", ins.address, w & 0xFFF)
    back = ins.to_integer()
    e.claim_eq("encode-opcode-in-top-four-bits", (back >> 12) & 0xF, min(k, 12))
    e.claim_eq("encode-address-in-low-twelve-bits", back & 0xFFF, w & 0xFFF)
    e.claim("encode-is-16-bit", land(cond(">=", back, 0), cond("<", back, 2**16)))
    e.claim("roundtrip-word", lor(cond(">", op, 12), cond("==", back, w & 0xFFFF)))
    e.claim("canary:word", cond("==", back, (w & 0xFFFF) + 1))
    e.claim_eq("op_code_value", ins.op_code_value(), min(k, 12))
    e.claim_eq("address_section_value", ins.address_section_value(), w & 0xFFF)


def h_encode(e, mnemonic):
    """every instruction encodes to a word that decodes back to an equal instruction"""
    from architecture_simulator.isa.toy.toy_instructions import ToyInstruction, instruction_map, AddressTypeInstruction

    cls = instruction_map[mnemonic]
    a = e.int("a", -(2**13), 2**13)
    with_address = issubclass(cls, AddressTypeInstruction) or e.choose(2) == 1
    ins = cls(address=a) if with_address else cls()
    w = int(ins) if e.mode != "sym" else ins.to_integer()
    back = ToyInstruction.from_integer(w)
    e.observe("word", w)
    e.claim("same-class", type(back) is type(ins), {"got": type(back).__name__})
    e.claim("equal-by-__eq__", (back == ins) is True)
    e.claim_eq("same-address", back.address, ins.address)
    e.claim_eq("address-is-12-bit", ins.address, zx(a, 12) if with_address else 0)
    e.claim_eq("opcode-in-top-bits", w >> 12, T.MNEMONIC.index(mnemonic))
    e.claim("canary:class", type(back) is not type(ins))


# ---- assembler ---------------------------------------------------------------------------------------

LINES = ["addr_dec", "addr_hex", "addr_var", "addr_label", "noaddr", "addr_dec_big", "noaddr2", "addr_var2"]
ADDR_M = ["STO", "LDA", "BRZ", "ADD", "SUB", "OR", "AND", "XOR"]
NOADDR_M = ["NOT", "INC", "DEC", "ZRO", "NOP"]


def h_asm(e, lines, ndecl, data_first, lower):
    from architecture_simulator.simulation.toy_simulation import ToySimulation

    Tx = Text(e)
    # declarations
    decls = []
    for d in range(ndecl):
        nvals = (d + len(lines)) % 3 + 1
        decls.append(("v%d" % d, [e.int("d%d_%d" % (d, j), 0, 2**17) for j in range(nvals)]))
    n = len(lines)
    p = e.choose(n + 1)
    inline = e.choose(2) == 1 if p < n else False
    text = []
    expect = []  # (mnemonic, operand spec)
    for k, shape in enumerate(lines):
        mn = ADDR_M[(k * 3 + len(shape)) % 8]
        nm = NOADDR_M[(k * 2 + len(shape)) % 5]
        if shape in ("addr_var", "addr_var2") and not decls:
            shape = "addr_label"
        if shape == "addr_dec":
            a = e.int("a%d" % k, 0, 4095)
            line, exp = "%s %s" % (mn, Tx.num(a)), (mn, ("num", a))
        elif shape == "addr_dec_big":
            a = e.int("a%d" % k, 4096, 2**16)
            line, exp = "%s %s" % (mn, Tx.num(a)), (mn, ("num", a))
        elif shape == "addr_hex":
            a = e.int("a%d" % k, 0, 4095)
            line, exp = "%s %s" % (mn, Tx.hexnum(a)), (mn, ("num", a))
        elif shape in ("addr_var", "addr_var2"):
            v = decls[(k + (shape == "addr_var2")) % len(decls)][0]
            line, exp = "%s %s" % (mn, v), (mn, ("var", v))
        elif shape == "addr_label":
            line, exp = "%s target" % mn, (mn, ("label", "target"))
        else:
            line, exp = nm, (nm, None)
        if lower:
            line = line.split(" ")[0].lower() + line[len(line.split(" ")[0]):]
        if k == p:
            if inline:
                line = "target: " + line
            else:
                text.append("target:")
        text.append(line)
        expect.append(exp)
    if p == n:
        text.append("target:")
    data = ["%s: .word %s" % (name, ", ".join(Tx.num(v) if (i + len(name)) % 2 else Tx.hexnum(v) for i, v in enumerate(vals))) for name, vals in decls]
    if decls or data_first is not None:
        src = "\n".join([".data"] + data + [".text"] + text) if data_first in (True, None) else "\n".join([".text"] + text + [".data"] + data)
    else:
        src = "\n".join(text)
    sim = ToySimulation()
    try:
        sim.load_program(src)
        exc = None
    except Exception as ex:  # noqa
        exc = ex
    e.observe("exception", type(exc).__name__ if exc else None)
    e.claim("assembles", exc is None, {"exception": repr(exc)[:160], "text": src if e.mode != "sym" else None})
    if exc is not None:
        return
    # reference placement
    var_addr = {}
    top = 4095
    mem = {}
    for name, vals in decls:
        top -= len(vals)
        base = top + 1
        var_addr[name] = base
        for j, v in enumerate(vals):
            mem[base + j] = zx(v, 16)
    labels = {"target": p}
    st = sim.state
    mf = st.memory.memory_file
    for i, (mn, spec) in enumerate(expect):
        if spec is None:
            addr = 0
        elif spec[0] == "num":
            addr = zx(spec[1], 12)
        elif spec[0] == "var":
            addr = var_addr[spec[1]]
        else:
            addr = labels[spec[1]]
        word = (T.MNEMONIC.index(mn) << 12) | addr
        e.claim_eq("instruction-%d-at-address-%d" % (i, i), val(mf[i]) if i in mf else None, word)
    for a, v in mem.items():
        e.claim_eq("data@%d" % a, val(mf[a]) if a in mf else None, v)
    e.claim("no-other-cells", set(mf.keys()) == set(range(n)) | set(mem.keys()), {"keys": sorted(mf.keys())[:10]})
    e.claim("max_pc", st.max_pc == n - 1, {"max_pc": st.max_pc})
    e.claim("first-instruction-loaded", (st.loaded_instruction is not None) == (n > 0))
    e.claim("canary:max_pc", st.max_pc == n)
    e.observe("cells", [val(mf[k]) for k in sorted(mf.keys())][:12])


SUM_EXAMPLE = """# computes the sum of the numbers from 1 to n

.data
    n: .word %s # enter n here
    result: .word 0

.text
    LDA n # skip to the end if n=0
    BRZ end
    loop:
        LDA result
        ADD n
        STO result
        LDA n
        DEC
        STO n
        BRZ end
        ZRO
        BRZ loop
    end:
"""

TUPLE_EXAMPLE = """# store second value of my_tuple in my_value

.data
    my_tuple: .word %s, %s
    my_value: .word 0

.text
    LDA my_load_instruction     # load 'LDA my_tuple' (LDA 0xFFE) into accu
    INC                         # increment address in LDA instruction
    STO my_load_instruction     # store 'LDA 0xFFF' at my_load_instruction
    my_load_instruction:        # this label points to the memory location of LDA instruction
    LDA my_tuple                # actually load data at my_tuple + 1 (=0xFFF)
    STO my_value                # store value of second tuple entry at my_value (0xFFD)
"""


def documented(kind):
    """the example as printed on the TOY help page of /repo's working tree (None if not found)"""
    import html
    import os
    import re

    repo = os.environ.get("VERIF_REPO", "/repo")
    src = open(os.path.join(repo, "webgui/src/components/toy/ToyHelp.vue"), encoding="utf-8").read()
    for m in re.finditer(r"<pre[^>]*>(.*?)</pre", src, re.S):
        body = html.unescape(re.sub(r"<[^>]+>", "", m.group(1)))
        if kind == "sum" and "computes the sum" in body:
            return body
        if kind == "tuple" and "my_tuple" in body:
            return body
    return None


def h_example_sum(e):
    from architecture_simulator.simulation.toy_simulation import ToySimulation
    import re

    doc = documented("sum")
    e.claim("documented-example-found", doc is not None)
    if doc is None:
        return
    Tx = Text(e)
    n = e.int("n", 0, 4)
    src = re.sub(r"n: \.word \d+", lambda m: "n: .word " + Tx.num(n), doc)
    sim = ToySimulation()
    sim.load_program(src)
    steps = 0
    while not sim.is_done() and steps < 80:
        sim.step()
        steps += 1
    e.claim("terminates", sim.is_done())
    res = sim.state.memory.read_halfword(4094)
    e.observe("result", res)
    e.observe("steps", steps)
    e.claim_eq("result-is-n(n+1)/2", val(res) * 2, n * (n + 1))
    e.claim_eq("n-counted-down", val(sim.state.memory.read_halfword(4095)), 0)
    e.claim("canary:sum", cond("==", val(res), n + 100))


def h_example_tuple(e):
    from architecture_simulator.simulation.toy_simulation import ToySimulation
    import re

    doc = documented("tuple")
    e.claim("documented-example-found", doc is not None)
    if doc is None:
        return
    Tx = Text(e)
    a, b = e.int("a", 0, 0xFFFF), e.int("b", 0, 0xFFFF)
    src = re.sub(r"my_tuple: \.word \d+, \d+", lambda m: "my_tuple: .word %s, %s" % (Tx.num(a), Tx.hexnum(b)), doc)
    sim = ToySimulation()
    sim.load_program(src)
    steps = 0
    while not sim.is_done() and steps < 20:
        sim.step()
        steps += 1
    e.claim("terminates", sim.is_done())
    got = sim.state.memory.read_halfword(0xFFD)
    e.observe("my_value", got)
    e.claim_eq("second-tuple-entry-stored", val(got), b)
    e.claim_eq("tuple-at-0xFFE", val(sim.state.memory.read_halfword(0xFFE)), a)
    e.claim("canary:tuple", cond("==", val(got), a + b + 1))


TOY_SPELLINGS = [("0", 0), ("7", 7), ("007", 7), ("0008", 8), ("0100", 100), ("00", 0), ("4095", 4095), ("0x0", 0), ("0x00F", 15), ("0xfff", 4095), ("0xAbC", 0xABC), ("0x010", 16), ("0x0008", 8)]


def h_numbers(e, i):
    """operand and data spellings the grammar accepts (leading zeros, hexadecimal digit case):
    the memory image equals that of the canonical decimal spelling and holds the denoted values"""
    from architecture_simulator.simulation.toy_simulation import ToySimulation

    sp, v = TOY_SPELLINGS[i]
    text = ".data\nw: .word %s, 1\n.text\nLDA %s\nadd %s\nSTO w"
    a, b = ToySimulation(), ToySimulation()
    try:
        a.load_program(text % (sp, sp, sp))
        exc = None
    except Exception as ex:  # noqa
        exc = ex
    e.observe("exception", type(exc).__name__ if exc else None)
    e.claim("assembles", exc is None, {"spelling": sp, "exception": repr(exc)[:120]})
    if exc is not None:
        return
    b.load_program(text % (v, v, v))
    ia = {k: int(x) for k, x in sorted(a.state.memory.memory_file.items())}
    ib = {k: int(x) for k, x in sorted(b.state.memory.memory_file.items())}
    e.claim("same-image-as-canonical-decimal", ia == ib, {"spelled": ia, "canonical": ib})
    e.claim("operand-of-first-instruction", ia.get(0, 0) & 0xFFF == v, {"word": ia.get(0)})
    e.claim("data-word-present", v in ia.values() or v == 0)
    e.claim("canary:num", ia == {})


def h_small_memory(e, size, data_first):
    """a simulation configured with a smaller unified memory: variables go downward from *its* top,
    names resolve there, and the memory keeps its configured size through load_program"""
    from architecture_simulator.simulation.toy_simulation import ToySimulation

    Tx = Text(e)
    a, b, c = e.int("a", 0, 0xFFFF), e.int("b", 0, 0xFFFF), e.int("c", 0, 0xFFFF)
    data = ".data\nx: .word %s\nt: .word %s, %s\n" % (Tx.num(a), Tx.hexnum(b), Tx.num(c))
    text = ".text\nLDA t\nADD x\nSTO x\n"
    sim = ToySimulation(unified_memory_size=size)
    sim.load_program(data + text if data_first else text + data)
    st = sim.state
    top = size - 1
    e.observe("range", [st.memory.address_range.start, st.memory.address_range.stop])
    e.claim("memory-keeps-configured-size", (st.memory.address_range.start, st.memory.address_range.stop) == (0, size))
    e.claim_eq("x-at-top", val(st.memory.read_halfword(top)), a)
    e.claim_eq("t[0]-below", val(st.memory.read_halfword(top - 2)), b)
    e.claim_eq("t[1]-ascending", val(st.memory.read_halfword(top - 1)), c)
    ins = [st.memory.read_halfword(i) for i in range(3)]
    e.claim_eq("LDA-t-operand", val(ins[0]) & 0xFFF, top - 2)
    e.claim_eq("ADD-x-operand", val(ins[1]) & 0xFFF, top)
    e.claim_eq("STO-x-operand", val(ins[2]) & 0xFFF, top)
    sim.run()
    e.claim_eq("program-result", val(st.memory.read_halfword(top)), zx(a + b, 16))
    e.claim("canary:small", cond("==", val(st.memory.read_halfword(top)), a + b + 1))


HARNESSES = {"decode": h_decode, "encode": h_encode, "asm": h_asm, "sum": h_example_sum, "tuple": h_example_tuple, "numbers": h_numbers, "small_memory": h_small_memory}


def jobs(tier, seed):
    out = [{"label": "decode", "harness": "decode", "args": {}, "cost": 5}]
    for i in range(len(TOY_SPELLINGS)):
        out.append({"label": "num-%d" % i, "harness": "numbers", "args": {"i": i}, "cost": 1})
    for m in T.MNEMONIC:
        out.append({"label": "encode-" + m, "harness": "encode", "args": {"mnemonic": m}, "cost": 1})
    L = 2 if tier == "quick" else 3
    i = 0
    for n in range(0, L + 1):
        for sk in itertools.product(LINES, repeat=n):
            for ndecl in (0, 1, 2):
                i += 1
                if n == 3 and (i + seed) % 6 != 0:
                    continue
                df = [None, True, False][i % 3] if ndecl == 0 else [True, False][i % 2]
                if ndecl == 0 and any(s.startswith("addr_var") for s in sk):
                    continue
                out.append({"label": "asm-%s-d%d-%s" % (".".join(sk) or "empty", ndecl, {None: "nd", True: "df", False: "tf"}[df]), "harness": "asm", "args": {"lines": list(sk), "ndecl": ndecl, "data_first": df, "lower": bool(i % 2)}, "cost": 2 + n, "validate_every": 2})
    out.append({"label": "example-sum", "harness": "sum", "args": {}, "cost": 10})
    out.append({"label": "example-tuple", "harness": "tuple", "args": {}, "cost": 3})
    for size in (256, 1024, 4096):
        for df in (True, False):
            out.append({"label": "small-memory-%d-%s" % (size, "df" if df else "tf"), "harness": "small_memory", "args": {"size": size, "data_first": df}, "cost": 2})
    return out


if __name__ == "__main__":
    from symx import runner
    import checks.c19 as me

    runner.main(me)
