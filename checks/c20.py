"""C20 TOY two-phase stepping: whole steps and half-cycle steps are equivalent.

From one arbitrary TOY state (incl. next_cycle in {1,2}, done or not) three copies are driven by
step(), first_cycle_step();second_cycle_step() and single_step() x2; the resulting states,
counters, visualisation values, svg update lists and memory-table entries must coincide.
Out-of-order calls must raise StepSequenceError and change nothing; done states are inert."""
from __future__ import annotations

import dataclasses

from symx.ops import val

PROPERTY = "C20"
LEVEL = "model_checking"
TRUSTED = ["z3 5.1 QF_UFBV", "fixedint model (validated each run)", "CPython str/format renderers (placeholders compared as (renderer, value))"]
ASSUMPTIONS = [
    "pre-state arbitrary (accu, pc, IR word, memory, next_cycle, current/next instruction address); by induction the equivalence holds at every instruction boundary of any program",
    "memory-table clause: 2-word (quick) / 4-word (thorough) unified memory (constructor parameter), every cell's opcode concrete and address bits symbolic, so that table rows can be enumerated without forking on every row",
]
RULE = "one case = one feasible path of the three drivers run from the same symbolic pre-state"


def bounds(tier):
    return {"instructions": 1, "drivers": ["step", "first+second", "single_step x2"], "table_variant_memory_words": 2 if tier == "quick" else 4}


def snapshot(e, sim, store, q, table):
    st = sim.state
    li = st.loaded_instruction
    vv = st.visualisation_values
    pm = st.performance_metrics
    s = {
        "accu": val(st.accu),
        "pc": val(st.program_counter),
        "ir": None if li is None else [type(li).__name__, li.opcode, li.address],
        "next_cycle": sim.next_cycle,
        "has_started": sim.has_started,
        "cur": st.address_of_current_instruction,
        "nxt": st.address_of_next_instruction,
        "max_pc": st.max_pc,
        "cycles": pm.cycles,
        "icount": pm.instruction_count,
        "bcount": pm.branch_count,
        "vis": [None if v is None else (v if isinstance(v, bool) else val(v)) for v in dataclasses.astuple(vv)] if False else [_vv(getattr(vv, f.name)) for f in dataclasses.fields(vv)],
        "svg": [list(t) for t in sim.get_toy_svg_update_values()],
        "done": sim.is_done(),
    }
    if store is not None:
        s["mem[q]"] = store.abstract(q)
    else:
        s["mem"] = {k: val(v) for k, v in st.memory.memory_file.items()}
    if table:
        s["table"] = [list(r) for r in sim.get_memory_table_entries()]
        s["regs"] = sim.get_register_representations()
    return s


def _vv(v):
    if v is None or isinstance(v, bool):
        return v
    return val(v)


def run(fn):
    try:
        fn()
        return None
    except Exception as ex:  # noqa
        return type(ex).__name__


def h_equiv(e, small, done, opcode=None):
    from symx.state import ToyInputs, mk_toy

    inp = ToyInputs(e, mem_size=small or None, done=done, next_cycle=1, ir_opcode=opcode)
    q = e.int("q", 0, 4095) if not small else 0
    sims = [mk_toy(e, inp) for _ in range(3)]
    (a, sa), (b, sb), (c, sc) = sims
    xa = run(a.step)
    xb = run(lambda: (b.first_cycle_step(), b.second_cycle_step()))
    xc = run(lambda: (c.single_step(), c.single_step()))
    e.observe("exceptions", [xa, xb, xc])
    e.claim("same-exception", xa == xb == xc, {"exc": [xa, xb, xc]})
    if xa is not None:
        # an instruction that faults (address outside the small memory) - outside the claim
        return
    A = snapshot(e, a, sa, q, small)
    B = snapshot(e, b, sb, q, small)
    C = snapshot(e, c, sc, q, small)
    e.observe("accu", A["accu"])
    e.observe("pc", A["pc"])
    for k in A:
        e.claim_eq("step==halves:" + k, A[k], B[k])
        e.claim_eq("step==single:" + k, A[k], C[k])
    if small and not done:
        # the same two drivers with the front end's queries issued between the two halves
        (d, sd), (g, sg) = mk_toy(e, inp), mk_toy(e, inp)

        def queried(first, second, sim):
            first()
            sim.get_memory_table_entries()
            sim.get_register_representations()
            sim.get_toy_svg_update_values()
            second()

        xd = run(lambda: queried(d.first_cycle_step, d.second_cycle_step, d))
        xg = run(lambda: queried(g.single_step, g.single_step, g))
        e.claim("same-exception-with-queries", xd == xg == xa, {"exc": [xd, xg]})
        D, G = snapshot(e, d, sd, q, small), snapshot(e, g, sg, q, small)
        for k in A:
            e.claim_eq("step==halves-with-queries-between:" + k, A[k], D[k])
            e.claim_eq("step==single-with-queries-between:" + k, A[k], G[k])
    e.claim("canary:pc", __import__("symx.ops", fromlist=["cond"]).cond("==", A["pc"], inp.pc) if not done else False)
    if done:
        fresh, sf = mk_toy(e, inp)
        F = snapshot(e, fresh, sf, q, small)
        for k in A:
            e.claim_eq("done-is-inert:" + k, A[k], F[k])


def h_half_boundary(e, small, opcode=None):
    """state after the first half: second_cycle_step and single_step agree; first_cycle_step and
    step() raise StepSequenceError and change nothing."""
    from symx.state import ToyInputs, mk_toy
    from architecture_simulator.simulation.runtime_errors import StepSequenceError

    inp = ToyInputs(e, mem_size=small or None, done=False, next_cycle=2, ir_opcode=opcode)
    q = e.int("q", 0, 4095) if not small else 0
    (a, sa), (b, sb), (c, sc), (d, sd), (f0, s0) = [mk_toy(e, inp) for _ in range(5)]
    xa = run(a.second_cycle_step)
    xb = run(b.single_step)
    e.claim("same-exception", xa == xb)
    if xa is None:
        A, B = snapshot(e, a, sa, q, small), snapshot(e, b, sb, q, small)
        for k in A:
            e.claim_eq("second==single:" + k, A[k], B[k])
        e.observe("pc", A["pc"])
    xc = run(c.first_cycle_step)
    xd = run(d.step)
    e.claim("first-out-of-order-raises", xc == "StepSequenceError")
    e.claim("step-mid-instruction-raises", xd == "StepSequenceError")
    F = snapshot(e, f0, s0, q, small)
    Cc, D = snapshot(e, c, sc, q, small), snapshot(e, d, sd, q, small)
    for k in F:
        e.claim_eq("rejected-first-unchanged:" + k, Cc[k], F[k])
        e.claim_eq("rejected-step-unchanged:" + k, D[k], F[k])


def h_second_out_of_order(e, small, opcode=None):
    from symx.state import ToyInputs, mk_toy

    inp = ToyInputs(e, mem_size=small or None, done=False, next_cycle=1, ir_opcode=opcode)
    q = e.int("q", 0, 4095) if not small else 0
    (a, sa), (f0, s0) = [mk_toy(e, inp) for _ in range(2)]
    xa = run(a.second_cycle_step)
    e.claim("second-out-of-order-raises", xa == "StepSequenceError")
    A, F = snapshot(e, a, sa, q, small), snapshot(e, f0, s0, q, small)
    for k in F:
        e.claim_eq("rejected-second-unchanged:" + k, A[k], F[k])
    e.observe("pc", A["pc"])


def h_done_inert(e, small, next_cycle, opcode=None):
    from symx.state import ToyInputs, mk_toy

    inp = ToyInputs(e, mem_size=small or None, done=True, next_cycle=next_cycle, ir_opcode=opcode)
    q = e.int("q", 0, 4095) if not small else 0
    (f0, s0) = mk_toy(e, inp)
    F = snapshot(e, f0, s0, q, small)
    for name in ("first_cycle_step", "second_cycle_step", "single_step", "run") + (("step",) if next_cycle == 1 else ()):
        a, sa = mk_toy(e, inp)
        x = run(getattr(a, name))
        e.claim("done-%s-no-exception" % name, x is None, {"exc": x})
        A = snapshot(e, a, sa, q, small)
        for k in F:
            if k == "has_started":
                continue
            e.claim_eq("done-%s-inert:%s" % (name, k), A[k], F[k])
    e.observe("pc", F["pc"])


HARNESSES = {"equiv": h_equiv, "half": h_half_boundary, "second_ooo": h_second_out_of_order, "done": h_done_inert}


def jobs(tier, seed):
    out = []
    msize = 2 if tier == "quick" else 4
    for small in (0, msize):
        s = ("table%d" % small) if small else "full"
        ops = [None] if not small else list(range(13))
        for k in ops:
            ks = "" if k is None else "-op%d" % k
            out.append({"label": "equiv-" + s + ks, "harness": "equiv", "args": {"small": small, "done": False, "opcode": k}, "cost": 20 if small else 10})
            out.append({"label": "half-" + s + ks, "harness": "half", "args": {"small": small, "opcode": k}, "cost": 8})
        out.append({"label": "second-ooo-" + s, "harness": "second_ooo", "args": {"small": small, "opcode": 3 if small else None}, "cost": 2})
        for nc in (1, 2):
            out.append({"label": "done-%s-nc%d" % (s, nc), "harness": "done", "args": {"small": small, "next_cycle": nc}, "cost": 2})
    return out


if __name__ == "__main__":
    from symx import runner
    import checks.c20 as me

    runner.main(me)
