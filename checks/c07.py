"""C07 Five-stage retire times and cycle count follow the documented pipeline schedule.

The bounded symbolic programs of C02 are run in five-stage mode (hazard detection on); the
cycle in which every instruction retires and the final cycle counter are compared with
refs/pipe_ref.Timing (in-order recurrences written from the documented schedule), driven by the
dynamic instruction stream of the single-cycle run on the same path."""
from __future__ import annotations

from checks import progs
from checks.progs import ALPHABET, REDUCED, skeletons
from refs import pipe_ref
from symx.ops import cond, land, lor, lnot, val

PROPERTY = "C07"
LEVEL = "model_checking"
TRUSTED = [
    "z3 5.1 QF_UFBV",
    "fixedint model (validated each run)",
    "refs/pipe_ref.py: my reading of the documented schedule (interlock = two extra decode cycles when a source equals the non-x0 destination of the instruction in EX or MEM at the first decode cycle; ecall = two extra execute cycles iff an instruction is in MEM or WB when it reaches EX)",
    "dynamic instruction stream taken from the repository's single-cycle mode (tied to the ISA by C01)",
]
ASSUMPTIONS = [
    "programs, caps and bounds as in C02 (K = 2L+2 executed instructions, <= 2 dynamic ecalls)",
    "faulting runs are outside the timing claim",
    "n+4 clause: n <= 8 instructions from {add, addi, lui, auipc, mul} with one lw or sw with symbolic registers constrained to be mutually independent within the interlock window",
    "penalty clause: instruction and data cache of the two smallest geometries, symbolic miss penalty in [0, 1000]",
]
RULE = "one case = one feasible path through both simulations for one program skeleton; retire cycles are concrete per path, operand values symbolic"
MAXTASKS = 20


def bounds(tier):
    return {"alphabet": ALPHABET, "length": "as C02 (%s)" % ("L<=2 + 1/40 of L=3" if tier == "quick" else "L<=2, L=3 reduced alphabet mandatory, rest best effort"), "independent_instructions_n": "1..6" if tier == "quick" else "1..8"}


def record_stream(items):
    stream = []

    def on_step(sim, r):
        pr = sim.state.pipeline.pipeline_registers[0]
        ins = pr.instruction
        idx = None
        for i, (a, obj) in enumerate(items):
            if obj is ins:
                idx = i
        pm = sim.state.performance_metrics
        stream.append((idx, pm.branch_count, pm.procedure_count))

    return stream, on_step


def oracle_timing(mnems, fields, stream, interlock=True):
    tm = pipe_ref.Timing(interlock=interlock)
    prev_b = 0
    toks = []
    for (idx, bc, pc_) in stream:
        m = mnems[idx]
        t = tm.add(m, fields[idx])
        taken = m in ("jal", "jalr") or bc != prev_b
        prev_b = bc
        if taken:
            tm.redirect(t)
        toks.append(t)
    return tm, toks


def h_timing(e, mnems, K=None):
    K = K or progs.k_for(len(mnems))
    c1, c5, items, fields = progs.setup_pair(e, mnems, detect=True)
    s5 = progs.run_five(e, c5, progs.cycle_bound(K), K=K)
    stream, on_step = record_stream(items)
    s1 = progs.run_single(e, c1, K, on_step=on_step)
    e.observe("retired5", s5.retired)
    e.observe("steps5", s5.steps)
    if s5.fault is not None or s1.fault is not None or s5.nonterminating:
        return "fault"
    tm, toks = oracle_timing(mnems, fields, stream)
    impl = [i + 1 for i, (a, cyc, st, fl) in enumerate(s5.per_step) if a is not None]
    want = [t.W for t in toks]
    info = {"impl": impl, "oracle": want, "stream": [mnems[i] for i, _, _ in stream]}
    e.claim("retire-cycles", impl == want, info)
    pm = c5.sim.state.performance_metrics
    e.claim("total-cycles", pm.cycles == tm.total_cycles(), {"impl": pm.cycles, "oracle": tm.total_cycles()})
    e.claim("cycle-per-step", pm.cycles == s5.steps, {"cycles": pm.cycles, "steps": s5.steps})
    e.claim("canary:total-cycles", pm.cycles == tm.total_cycles() + 1)
    e.observe("cycles", pm.cycles)
    return "ok"


IND = ["add", "addi", "lui", "mul", "auipc"]


def h_independent(e, mnems):
    """n mutually independent instructions take exactly n+4 cycles"""
    n = len(mnems)
    c1, c5, items, fields = progs.setup_pair(e, mnems, detect=True)
    # independence: no instruction reads a register written by one of the two preceding ones
    for j in range(n):
        srcs = pipe_ref.sources(mnems[j], fields[j])
        for i in range(max(0, j - 2), j):
            d = pipe_ref.dest(mnems[i], fields[i])
            if d is None:
                continue
            for s in srcs:
                e.assume(lor(cond("==", d, 0), cond("!=", s, d)))
    s5 = progs.run_five(e, c5, 6 * n + 10)
    if s5.fault is not None:
        return "fault"
    pm = c5.sim.state.performance_metrics
    e.observe("cycles", pm.cycles)
    e.claim("n+4", pm.cycles == n + 4, {"cycles": pm.cycles, "n": n})
    e.claim("no-stall", pm.stalls == 0)
    e.claim("canary:n+5", pm.cycles == n + 5)


PEN_D = [("wt", "lru", 0, 0, 1), ("wb", "lru", 0, 0, 1), ("wb", "plru", 0, 1, 2), ("wt", "lru", 1, 0, 2)]
PEN_I = [("lru", 0, 0, 1), ("plru", 1, 0, 2)]
PEN_SK = [["ecall"], ["lw"], ["sw"], ["lb"], ["sb"], ["addi"], ["beq"], ["lw", "ecall"], ["sb", "ecall"], ["ecall", "lw"], ["sw", "lb"], ["lw", "lw"], ["jal", "sw"], ["ecall", "ecall"], ["sw", "lw", "ecall"]]


def h_penalty(e, mnems, dcfg, icfg):
    """penalty clause: five-stage run with an instruction and a data cache, both miss penalties
    symbolic; every step advances the cycle counter by exactly 1 + penalty x (counted misses of
    that step) - in particular uncounted reads (print-string, tables) charge nothing"""
    from symx.state import mk_riscv, place_instructions, cache_options

    kind, drepl, dib, dbb, dways = dcfg
    irepl, iib, ibb, iways = icfg
    K = progs.k_for(len(mnems))
    if any(m == "ecall" for m in mnems) and e.mode == "sym":
        e.site_bounds["process_ecall"] = progs.ECALL_SITE_BOUND
    pd, pi = e.int("penalty_d", 0, 1000), e.int("penalty_i", 0, 1000)
    items, fields = progs.build_program(e, mnems)
    # the penalties travel through the public configuration path (CacheOptions -> constructor)
    c5 = mk_riscv(e, mode="five_stage_pipeline", dcache=cache_options(True, dib, dbb, dways, kind, drepl, pd), icache=cache_options(True, iib, ibb, iways, "wb", irepl, pi))
    st = c5.sim.state
    place_instructions(e, c5, items)
    pm, dm, im = st.performance_metrics, st.memory, st.instruction_memory
    last = {"cycles": 0, "dm": 0, "im": 0}
    checks = []

    def on5(sim, r):
        dmiss, imiss = dm.accesses - dm.hits, im.accesses - im.hits
        checks.append((pm.cycles, last["cycles"] + 1 + pd * (dmiss - last["dm"]) + pi * (imiss - last["im"])))
        last.update(cycles=pm.cycles, dm=dmiss, im=imiss)

    s5 = progs.run_five(e, c5, progs.cycle_bound(K), on_step=on5, K=K)
    e.observe("steps5", s5.steps)
    e.observe("misses", [dm.accesses - dm.hits, im.accesses - im.hits])
    if s5.fault is not None or s5.nonterminating:
        return "fault"
    for i, (got, want) in enumerate(checks):
        e.claim_eq("cycle-advances-by-1-plus-penalties-step%d" % i, got, want)
    e.claim_eq("total-cycles-with-penalties", pm.cycles, s5.steps + pd * (dm.accesses - dm.hits) + pi * (im.accesses - im.hits))
    e.claim("canary:penalty", cond("==", pm.cycles, s5.steps + 1 + pd * (dm.accesses - dm.hits) + pi * (im.accesses - im.hits)))
    e.observe("cycles", pm.cycles)
    return "ok"


HARNESSES = {"timing": h_timing, "independent": h_independent, "penalty": h_penalty}


def jobs(tier, seed):
    from checks import c02

    out = []
    for j in [j_ for j_ in c02.jobs(tier, seed) if j_["harness"] == "prog"]:
        j = dict(j)
        j["harness"] = "timing"
        j["module"] = "checks.c07"
        out.append(j)
    import itertools

    for n in range(1, 7 if tier == "quick" else 9):
        for k in range(2 if tier == "quick" else 6):
            sk = [IND[(k * 5 + i * (k + 1) + seed) % len(IND)] for i in range(n)]
            if n >= 2:
                sk[(k + seed) % n] = "lw" if k % 2 == 0 else "sw"  # one memory instruction per program
            # n >= 7: thousands of register-aliasing paths; best effort (5 min each), started first
            out.append({"label": "ind%d-%d:%s" % (n, k, ",".join(sk)), "harness": "independent", "args": {"mnems": sk}, "cost": 3 * n if n < 7 else 3000000, "optional": n >= 7})
    for i, sk in enumerate(PEN_SK):
        if tier == "quick" and len(sk) > 2:
            continue
        for j in range(1 if tier == "quick" and len(sk) > 1 else 2 if tier == "quick" else len(PEN_D)):
            d, ic = PEN_D[(i + j + seed) % len(PEN_D)], PEN_I[(i + j) % len(PEN_I)]
            out.append({"label": "penalty:%s-%s-%s" % (",".join(sk), "".join(map(str, d)), "".join(map(str, ic))), "harness": "penalty", "args": {"mnems": sk, "dcfg": list(d), "icfg": list(ic)}, "cost": 40 * len(sk), "timeout_ms": 10000, "cut_on_undecided": True, "validate_every": 3, "optional": len(sk) > 2})
    return out


BUDGET = {"quick": None, "thorough": 12 * 60}

if __name__ == "__main__":
    from symx import runner
    import checks.c07 as me

    runner.main(me)
