"""C01 Single-cycle RV32IM execution matches the ISA reference semantics.

One inductive step of the real RiscvSimulation(single_stage_pipeline).step() from an arbitrary
state (all registers, whole data memory, pc, all operand fields symbolic) against refs/riscv_ref."""
from __future__ import annotations

from refs import riscv_ref as R
from symx import ops
from symx.ops import zx, sx, cond, land, lor, lnot, val

PROPERTY = "C01"
LEVEL = "model_checking"
TRUSTED = [
    "CPython int/str/format/struct renderers (spans are compared as (renderer, value))",
    "z3 5.1 QF_UFBV",
    "fixedint model (validated differentially against fixedint 0.2.0 on every run)",
    "refs/riscv_ref.py (hand-written from the RISC-V unprivileged spec and the help-page ecall table)",
    "lemma L-FP: int(a / b) on |a|,|b| < 2^31 is truncating division (DESIGN.md section 3); decided by z3 (QF_BVFP) at 8-bit (quick) / 12-bit (thorough) operand width in job lemma-L-FP, written argument at full width",
]
ASSUMPTIONS = [
    "pc is a multiple of 4 in [0, 2^14) (C04 establishes this for assembled programs)",
    "immediates within the encodable range of their format (incl. the unsigned spelling); branch/jump offsets even",
    "ecall print-string: a NUL within the first 4 bytes (strings <= 3 characters); longer strings outside the claim",
    "program counter compared modulo 2^32",
    "ecall 11 prints chr(a0 mod 128) (interpretation of 'ASCII character')",
]
RULE = "one case = one feasible path of step() for one mnemonic with every operand, register, memory byte and pc symbolic; each path is decided for all values by z3"

MNEMONICS = sorted(R.R_ALU | R.I_ALU | R.I_SHIFT | set(R.LOADS) | set(R.STORES) | R.BRANCHES | {"lui", "auipc", "jal", "jalr", "ecall"})


def bounds(tier):
    return {"steps": 1, "instruction_classes": len(MNEMONICS), "ecall_string_chars": R.MAX_STR, "registers": "all 32, symbolic indices", "memory": "total symbolic byte store"}


def sym_fields(e, m):
    """-> (constructor kwargs, architectural field dict for the reference)"""
    k = R.fmt_of(m)
    if k == "R":
        rd, rs1, rs2 = e.int("rd", 0, 31), e.int("rs1", 0, 31), e.int("rs2", 0, 31)
        return dict(rd=rd, rs1=rs1, rs2=rs2), dict(rd=rd, rs1=rs1, rs2=rs2)
    if k == "I":
        rd, rs1 = e.int("rd", 0, 31), e.int("rs1", 0, 31)
        imm = e.int("imm", -2048, 4095)
        return dict(rd=rd, rs1=rs1, imm=imm), dict(rd=rd, rs1=rs1, imm=sx(imm, 12))
    if k == "SH":
        rd, rs1 = e.int("rd", 0, 31), e.int("rs1", 0, 31)
        imm = e.int("imm", 0, 31)
        return dict(rd=rd, rs1=rs1, imm=imm), dict(rd=rd, rs1=rs1, imm=imm)
    if k == "S":
        rs1, rs2 = e.int("rs1", 0, 31), e.int("rs2", 0, 31)
        imm = e.int("imm", -2048, 4095)
        return dict(rs1=rs1, rs2=rs2, imm=imm), dict(rs1=rs1, rs2=rs2, imm=sx(imm, 12))
    if k == "B":
        rs1, rs2 = e.int("rs1", 0, 31), e.int("rs2", 0, 31)
        h = e.int("immh", -2048, 4095)
        return dict(rs1=rs1, rs2=rs2, imm=2 * h), dict(rs1=rs1, rs2=rs2, imm=sx(2 * h, 13))
    if k == "U":
        rd = e.int("rd", 0, 31)
        imm = e.int("imm", -(2**19), 2**20 - 1)
        return dict(rd=rd, imm=imm), dict(rd=rd, imm=sx(imm, 20))
    if k == "J":
        rd = e.int("rd", 0, 31)
        h = e.int("immh", -(2**19), 2**20 - 1)
        return dict(rd=rd, imm=2 * h, abs_addr=0), dict(rd=rd, imm=sx(2 * h, 21))
    if k == "E":
        return dict(), dict()
    raise KeyError(m)


def h_step(e, m, dcache=None):
    from symx.state import mk_riscv, place_instructions
    from architecture_simulator.isa.riscv.rv32i_instructions import instruction_map
    from architecture_simulator.simulation.runtime_errors import InstructionExecutionException

    c = mk_riscv(e, mode="single_stage_pipeline")
    sim, st = c.sim, c.sim.state
    pc = 4 * e.int("pcw", 0, 4095)
    kw, f = sym_fields(e, m)
    ins = instruction_map[m](**kw)
    place_instructions(e, c, [(pc, ins)])
    st.program_counter = pc
    reg0 = c.regs0.get
    mem0 = c.mem0.abstract
    if m == "ecall":
        # bound: print-string reads at most MAX_STR characters (assumed before the code runs)
        if ops.val(reg0(17)) == 4:
            a0 = reg0(10)
            e.assume(lor(*[cond("==", mem0(zx(a0 + i, 32)), 0) for i in range(R.MAX_STR + 1)]))
    text = repr(ins)
    try:
        ret = sim.step()
        fault = None
    except InstructionExecutionException as ex:
        fault = ex
        ret = None
    c.check_cell_types(e)  # every register still holds a UInt32 (what the next step computes with)
    exp = R.step(m, f, pc, reg0, mem0)
    q = e.int("q", 0, 31)
    qa = e.int("qa", 0, 2**32 - 1)
    e.observe("fault", fault is not None)
    e.observe("reg[q]", c.reg(q))
    e.observe("mem[qa]", c.mem_byte(qa))
    e.observe("pc", st.program_counter)
    e.observe("output", st.output)
    e.observe("exit_code", st.exit_code)
    e.claim("fault-iff-ref", (fault is not None) == (exp.fault is not None), {"impl_fault": repr(fault)[:200], "ref_fault": exp.fault})
    if exp.fault is not None or fault is not None:
        if fault is not None:
            e.claim_eq("fault-address", fault.address, pc)
            e.claim_eq("fault-repr", fault.instruction_repr, text)
        e.claim_eq("fault-regs-unchanged", c.reg(q), reg0(q))
        e.claim_eq("fault-output-unchanged", st.output, "")
        e.claim("fault-exit-none", st.exit_code is None)
        untouched = land(*[cond("!=", qa, a) for a in exp.touched])
        e.claim("fault-mem-unchanged-outside-access", lor(lnot(untouched), cond("==", c.mem_byte(qa), mem0(qa))))
        return "fault"
    # registers
    refregs = c.regs0.fork()
    if exp.reg is not None:
        rd, v = exp.reg
        if rd != 0:
            refregs.set(rd, v)
    e.claim_eq("registers", c.reg(q), refregs.get(q))
    e.claim("canary:registers", cond("==", c.reg(q), (refregs.get(q) + 1) & 0xFFFFFFFF))
    # memory
    refmem = c.mem0.fork()
    for a, b in exp.mem:
        refmem.set(a, b)
    e.claim_eq("memory", c.mem_byte(qa), refmem.abstract(qa))
    # pc, output, exit code, counters
    e.claim_eq("pc", zx(st.program_counter, 32), exp.pc)
    # The simulator keeps the program counter as an unbounded Python int; a value that differs from
    # the specified one by a multiple of 2^32 is only tolerated where it cannot matter: when the
    # specified address is outside the instruction address space [0, 2^14), so that execution ends
    # there under both readings.  A target that wraps onto an instruction address must be exact.
    e.claim("pc-exact-where-an-instruction-can-be", lor(cond("==", val(st.program_counter), exp.pc), cond(">=", exp.pc, 2**14)))
    e.claim("canary:pc", cond("==", zx(st.program_counter, 32), zx(exp.pc + 4, 32)))
    e.claim_eq("output", st.output, exp.out)
    e.claim_eq("exit_code", st.exit_code, exp.exit_code)
    pm = st.performance_metrics
    e.claim_eq("instruction_count", pm.instruction_count, 1)
    e.claim_eq("branch_count", pm.branch_count, 1 if exp.taken_branch else 0)
    e.claim_eq("procedure_count", pm.procedure_count, 1 if exp.call else 0)
    e.claim_eq("cycles", pm.cycles, 1)
    # termination clause: done <=> exit code set or no instruction at the new pc
    done = sim.is_done()
    at_pc = st.program_counter == pc  # the only instruction lives at pc
    e.claim("done-iff", done == ((exp.exit_code is not None) or (not at_pc)))
    e.claim("step-returns-not-done", ret == (not done))
    e.observe("done", done)
    return "ok"


def h_lfp(e, bits):
    """Lemma L-FP at reduced width: for all signed `bits`-bit a, b (b != 0) the repository's
    int(a / b) - binary64 division, then truncation - equals truncating integer division."""
    import z3

    a, b = z3.BitVecs("a b", bits)
    rne, rtz = z3.RNE(), z3.RTZ()
    fa = z3.fpSignedToFP(rne, a, z3.Float64())
    fb = z3.fpSignedToFP(rne, b, z3.Float64())
    q = z3.fpDiv(rne, fa, fb)
    back = z3.fpToSBV(rtz, q, z3.BitVecSort(bits + 1))
    want = z3.SignExt(1, a) / z3.SignExt(1, b)  # bvsdiv at bits+1: no overflow
    s_ = z3.Solver()
    s_.set("timeout", 600000)
    s_.add(b != 0, back != want)
    r = s_.check()
    e.observe("result", str(r))
    e.claim("L-FP-%d-bit" % bits, r == z3.unsat, {"result": str(r), "model": str(s_.model()) if r == z3.sat else None})
    e.claim("canary:lfp", r == z3.sat)


HARNESSES = {"step": h_step, "lfp": h_lfp}


def jobs(tier, seed):
    out = []
    for m in MNEMONICS:
        out.append({"label": m, "harness": "step", "args": {"m": m}, "cost": 5 if m in ("ecall", "div", "rem") else 1, "validate_every": 1})
    # lemma L-FP decided by z3 in QF_BVFP at reduced operand width (8 bit quick, 12 bit thorough)
    out.append({"label": "lemma-L-FP", "harness": "lfp", "args": {"bits": 8 if tier == "quick" else 12}, "cost": 100, "validate": False})
    return out


def classify(job, label, model):
    return "C01:%s:%s" % (job["label"], label)


if __name__ == "__main__":
    from symx import runner
    import checks.c01 as me

    runner.main(me)
