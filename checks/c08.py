"""C08 Hazard detection off behaves exactly as an interlock-free pipeline.

The real five-stage simulation with detect_data_hazards=False is compared with
refs/pipe_ref.NoInterlockMachine (every instruction reads its sources in its last decode cycle
and sees exactly the writes of instructions whose write-back cycle is <= that cycle; control
hazards and ecall draining still handled).  Hazard-free clause: nop-padded programs agree with
single-cycle mode; no decode-stage stall is ever inserted."""
from __future__ import annotations

from checks import progs
from checks.progs import ALPHABET, REDUCED, skeletons
from refs import pipe_ref
from refs import riscv_ref as R
from symx.ops import zx, cond, land, lor, lnot, val

PROPERTY = "C08"
LEVEL = "model_checking"
TRUSTED = [
    "z3 5.1 QF_UFBV",
    "fixedint model (validated each run)",
    "refs/pipe_ref.py NoInterlockMachine + refs/riscv_ref.py (executable reference of an interlock-free pipeline)",
    "CPython renderers for ecall output; lemma L-FP for DIV/REM",
]
ASSUMPTIONS = [
    "programs, caps and bounds as in C02 (K = 2L+2 executed instructions, <= 2 dynamic ecalls, ecall strings bounded)",
    "faulting runs: the reference and the implementation must agree that the run faults and on the faulting address; state at the fault is compared for registers/memory/output",
    "hazard-free clause: every L<=2 skeleton with two nops after each instruction, compared with single-cycle mode",
]
RULE = "one case = one feasible path of the real five-stage simulation (hazard detection off) together with the reference machine on the same symbolic program and state"
MAXTASKS = 20


def bounds(tier):
    return {"alphabet": ALPHABET, "length": "L<=2 plus a rotated 1/40 of light L=3" if tier == "quick" else "L<=2, L=3 over the reduced alphabet, rest best effort", "nop_padded": "all L<=2 skeletons"}


def h_stale(e, mnems, K=None):
    K = K or progs.k_for(len(mnems))
    from symx.state import mk_riscv, place_instructions

    if any(m == "ecall" for m in mnems) and e.mode == "sym":
        e.site_bounds["process_ecall"] = progs.ECALL_SITE_BOUND
    items, fields = progs.build_program(e, mnems)
    c5 = mk_riscv(e, mode="five_stage_pipeline", detect=False)
    place_instructions(e, c5, items)
    s5 = progs.run_five(e, c5, progs.cycle_bound(K), K=K)
    st5 = c5.sim.state
    prog = {4 * i: (m, fields[i]) for i, m in enumerate(mnems)}

    def lookup(pc):
        for a, ins in prog.items():
            if pc == a:
                return ins
        return None

    ref = pipe_ref.NoInterlockMachine(prog, c5.regs0.fork(), c5.mem0.fork(), K)
    ref.run(lookup)
    if ref.cut:
        from symx.core import PathCut

        raise PathCut("more than %d executed instructions" % K)
    q = e.int("q", 0, 31)
    qa = e.int("qa", 0, 2**32 - 1)
    e.observe("retired5", s5.retired)
    e.observe("reg[q]", c5.reg(q))
    e.observe("mem[qa]", c5.mem_byte(qa))
    e.observe("output", st5.output)
    e.observe("exit", st5.exit_code)
    e.observe("cycles", st5.performance_metrics.cycles)
    e.claim("terminates", not s5.nonterminating)
    if s5.nonterminating:
        return
    e.claim("same-fault-status", (s5.fault is None) == (ref.fault is None), {"impl": repr(s5.fault)[:160], "ref": repr(ref.fault)})
    if s5.fault is not None and ref.fault is not None:
        e.claim_eq("fault-address", s5.fault.address, ref.fault[0])
    e.claim_eq("registers", c5.reg(q), ref.reg_final(q))
    e.claim("canary:registers", cond("==", c5.reg(q), zx(ref.reg_final(q) + 1, 32)))
    if ref.fault is None:
        e.claim_eq("memory", c5.mem_byte(qa), ref.mem(qa))
    else:
        # a faulting store may have written the bytes before the offending one (C18): compare
        # outside the bytes the faulting access touches
        untouched = land(*[cond("!=", qa, a) for a in ref.fault[2]])
        e.claim("memory-outside-faulting-access", lor(lnot(untouched), cond("==", c5.mem_byte(qa), ref.mem(qa))))
    e.claim_eq("output", st5.output, ref.out)
    e.claim_eq("exit_code", st5.exit_code, ref.exit_code)
    if s5.fault is None and ref.fault is None:
        e.claim("retire-count", len(s5.retired) == len(ref.retired), {"impl": len(s5.retired), "ref": len(ref.retired)})
        if len(s5.retired) == len(ref.retired):
            e.claim_eq("retire-order", [zx(a, 32) for a in s5.retired], [zx(a, 32) for a in ref.retired])
        pm = st5.performance_metrics
        impl_w = [i + 1 for i, (a, cyc, stl, fl) in enumerate(s5.per_step) if a is not None]
        want_w = [t.W for t in ref.timing.toks]
        e.claim("retire-cycles", impl_w == want_w, {"impl": impl_w, "ref": want_w})
        e.claim("cycles", pm.cycles == ref.timing.total_cycles(), {"impl": pm.cycles, "ref": ref.timing.total_cycles()})
        e.claim("no-decode-stage-stall", s5.decode_stalls == 0, {"decode_stall_cycles": s5.decode_stalls})
        # the stall counter may exceed the reference's ecall drains only by wrong-path ecalls
        e.claim("stalls-at-least-ecall-drains", pm.stalls >= ref.timing.ecall_waits, {"stalls": pm.stalls, "ecall_waits": ref.timing.ecall_waits})
        e.claim("canary:cycles", pm.cycles == ref.timing.total_cycles() + 1)


def h_padded(e, mnems, K=None):
    """two nops behind every instruction: results equal single-cycle mode, no stall except ecall drains"""
    padded = []
    for m in mnems:
        padded += [m, "nop", "nop"]
    K = K or (3 * progs.k_for(len(mnems)))
    from symx.state import mk_riscv, place_instructions
    from architecture_simulator.isa.riscv.rv32i_instructions import instruction_map, ADDI

    if any(m == "ecall" for m in mnems) and e.mode == "sym":
        e.site_bounds["process_ecall"] = progs.ECALL_SITE_BOUND
    items, fields = [], []
    n = 0
    for i, m in enumerate(mnems):
        kw, f = progs.sym_fields(e, m, "i%d_" % i)
        items.append((4 * n, instruction_map[m](**kw)))
        n += 1
        for _ in range(2):
            items.append((4 * n, ADDI(rd=0, rs1=0, imm=0)))
            n += 1
    c1 = mk_riscv(e, mode="single_stage_pipeline")
    c5 = mk_riscv(e, mode="five_stage_pipeline", detect=False)
    place_instructions(e, c1, items)
    place_instructions(e, c5, items)
    s5 = progs.run_five(e, c5, progs.cycle_bound(K), K=K)
    s1 = progs.run_single(e, c1, K)
    from checks.c02 import compare_final

    compare_final(e, s1, s5)
    pm = c5.sim.state.performance_metrics
    e.claim("no-decode-stage-stall", s5.decode_stalls == 0, {"decode_stall_cycles": s5.decode_stalls})


HARNESSES = {"stale": h_stale, "padded": h_padded}


def jobs(tier, seed):
    from checks import c02

    out = []
    for j in [j_ for j_ in c02.jobs(tier, seed) if j_["harness"] == "prog"]:
        j = dict(j)
        if tier == "quick" and j["label"].startswith("L3:") and c02.heavy(j["args"]["mnems"], strict=True):
            continue
        j["harness"] = "stale"
        j["module"] = "checks.c08"
        out.append(j)
    for L in (1, 2):
        for sk in skeletons(ALPHABET, L):
            if L == 2 and c02.heavy(sk) and tier == "quick":
                continue
            out.append({"label": "pad:" + ",".join(sk), "harness": "padded", "args": {"mnems": sk}, "cost": 8 + 10 * sk.count("ecall"), "timeout_ms": 10000, "cut_on_undecided": True, "validate_every": 2})
    return out


BUDGET = {"quick": None, "thorough": 12 * 60}

if __name__ == "__main__":
    from symx import runner
    import checks.c08 as me

    runner.main(me)
