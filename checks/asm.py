"""Assembler harness support: program texts whose numeric literals are symbolic (sentinel
literals, see symx.text), a reference assembler for the documented syntax (asm_ref), and helpers to
read back what the real parser produced."""
from __future__ import annotations

from refs import riscv_ref as R
from symx.ops import zx, sx, val, cond

ABI = {"zero": 0, "ra": 1, "sp": 2, "gp": 3, "tp": 4, "t0": 5, "t1": 6, "t2": 7, "s0": 8, "fp": 8, "s1": 9,
       "a0": 10, "a1": 11, "a2": 12, "a3": 13, "a4": 14, "a5": 15, "a6": 16, "a7": 17, "s2": 18, "s3": 19,
       "s4": 20, "s5": 21, "s6": 22, "s7": 23, "s8": 24, "s9": 25, "s10": 26, "s11": 27, "t3": 28, "t4": 29,
       "t5": 30, "t6": 31}
DATA_START = 2**14


def regno(name):
    if name in ABI:
        return ABI[name]
    assert name[0] == "x"
    return int(name[1:])


class Text:
    """source text builder; num()/hexnum() render (possibly symbolic) integers as literals"""

    def __init__(self, e):
        self.e = e
        if e.mode == "sym":
            e.text_mode = "sentinel"

    def num(self, v):
        return format(val(v), "")

    def hexnum(self, v):
        return format(val(v), "#x")


# ---- reference assembler --------------------------------------------------------------------------
#
# A source program is a list of items:
#   ("label", name)                                  stand-alone label line
#   ("ins", inline_label|None, mnemonic, operands)   operands by documented syntax:
#        R: (rd, rs1, rs2) register names
#        I (alu/shift/jalr): (rd, rs1, imm)
#        load: ("imm", rd, imm, rs1) | ("reg", rd, rs1, imm) | ("var", rd, name, index|None)
#        store: ("imm", rs_data, imm, rs_base) | ("reg", rs_data, rs_base, imm) | ("var", rs_data, name, index|None, rs_addr)
#        branch: (rs1, rs2, ("num", imm) | ("label", name, offset|None))
#        jal: (rd, ("num", addr) | ("label", name, offset|None))
#        lui/auipc: (rd, imm)
#        li: (rd, c)   la: (rd, name, index|None)   mv: (rd, rs)   nop/ecall: ()
#   ("data", name, kind, values)   kind in byte/half/word (values list), string (str), zero (n)


def data_layout(items):
    """-> (variables {name: (address, element size)}, bytes {address: byte value}, end address)"""
    addr = DATA_START
    var = {}
    mem = {}
    for it in items:
        if it[0] != "data":
            continue
        _, name, kind, values = it
        if addr % 4:
            addr += 4 - addr % 4
        if kind in ("byte", "half", "word"):
            size = {"byte": 1, "half": 2, "word": 4}[kind]
            var[name] = (addr, size)
            for v in values:
                u = zx(v, 8 * size)
                for i in range(size):
                    mem[addr + i] = (u >> (8 * i)) & 0xFF
                addr += size
        elif kind == "string":
            var[name] = (addr, 1)
            for ch in values:
                mem[addr] = ord(ch)
                addr += 1
            mem[addr] = 0
            addr += 1
        elif kind == "zero":
            var[name] = (addr, 4)
            addr = addr + 4 * values
        else:
            raise KeyError(kind)
    return var, mem, addr


def split32(v):
    """(upper 20, lower 12 signed) with carry compensation: (hi << 12) + lo == v mod 2^32"""
    u = zx(v, 32)
    lo = sx(u & 0xFFF, 12)
    hi = zx((u - lo) >> 12, 20)
    return hi, lo


def expand(items, e):
    """-> list of emitted entries (mnemonic, fields-or-thunk) and label map; two passes"""
    var, mem, _ = data_layout(items)
    # pass 1: sizes and label addresses
    sizes = []
    for it in items:
        if it[0] != "ins":
            sizes.append(0)
            continue
        _, lab, m, ops = it
        if m == "li":
            c = ops[1]
            small = -2048 <= c <= 2047  # forks for a symbolic constant (as the assembler must)
            sizes.append(1 if small else 2)
        elif m == "la":
            sizes.append(2)
        elif (m in R.LOADS or m in R.STORES) and ops[0] == "var":
            sizes.append(3)
        else:
            sizes.append(1)
    labels = {}
    pc = 0
    for it, n in zip(items, sizes):
        if it[0] == "label":
            labels[it[1]] = pc
        elif it[0] == "ins" and it[1] is not None:
            labels[it[1]] = pc
        pc += 4 * n
    # pass 2: emit
    out = []
    pc = 0

    def target(spec, pc):
        if spec[0] == "num":
            return spec[1]
        _, name, off = spec
        return labels[name] + (off or 0)

    for it, n in zip(items, sizes):
        if it[0] != "ins":
            continue
        _, lab, m, ops = it
        if m in R.R_ALU:
            out.append((m, dict(rd=regno(ops[0]), rs1=regno(ops[1]), rs2=regno(ops[2]))))
        elif m in R.I_ALU or m in R.I_SHIFT or m == "jalr":
            imm = ops[2]
            out.append((m, dict(rd=regno(ops[0]), rs1=regno(ops[1]), imm=(imm & 31) if m in R.I_SHIFT else sx(imm, 12))))
        elif m in R.LOADS:
            if ops[0] == "imm":
                out.append((m, dict(rd=regno(ops[1]), imm=sx(ops[2], 12), rs1=regno(ops[3]))))
            elif ops[0] == "reg":
                out.append((m, dict(rd=regno(ops[1]), rs1=regno(ops[2]), imm=sx(ops[3], 12))))
            else:
                _, rd, name, index = ops
                base, size = var[name]
                a = base + size * (index or 0)
                hi, lo = split32(a)
                r = regno(rd)
                out.append(("lui", dict(rd=r, imm=sx(hi, 20))))
                out.append(("addi", dict(rd=r, rs1=r, imm=lo)))
                out.append((m, dict(rd=r, rs1=r, imm=0)))
        elif m in R.STORES:
            if ops[0] == "imm":
                out.append((m, dict(rs2=regno(ops[1]), imm=sx(ops[2], 12), rs1=regno(ops[3]))))
            elif ops[0] == "reg":
                out.append((m, dict(rs2=regno(ops[1]), rs1=regno(ops[2]), imm=sx(ops[3], 12))))
            else:
                _, rs, name, index, raddr = ops
                base, size = var[name]
                a = base + size * (index or 0)
                hi, lo = split32(a)
                r = regno(raddr)
                out.append(("lui", dict(rd=r, imm=sx(hi, 20))))
                out.append(("addi", dict(rd=r, rs1=r, imm=lo)))
                out.append((m, dict(rs2=regno(rs), rs1=r, imm=0)))
        elif m in R.BRANCHES:
            t = ops[2]
            imm = t[1] if t[0] == "num" else target(t, pc) - pc
            out.append((m, dict(rs1=regno(ops[0]), rs2=regno(ops[1]), imm=sx(imm, 13))))
        elif m == "jal":
            t = ops[1]
            imm = target(t, pc) - pc
            out.append((m, dict(rd=regno(ops[0]), imm=sx(imm, 21))))
        elif m in ("lui", "auipc"):
            out.append((m, dict(rd=regno(ops[0]), imm=sx(ops[1], 20))))
        elif m == "li":
            rd, c = regno(ops[0]), ops[1]
            if n == 1:
                out.append(("addi", dict(rd=rd, rs1=0, imm=sx(c, 12))))
            else:
                hi, lo = split32(c)
                out.append(("lui", dict(rd=rd, imm=sx(hi, 20))))
                out.append(("addi", dict(rd=rd, rs1=rd, imm=lo)))
        elif m == "la":
            rd, name, index = ops
            base, size = var[name]
            a = base + size * (index or 0)
            hi, lo = split32(a)
            r = regno(rd)
            out.append(("lui", dict(rd=r, imm=sx(hi, 20))))
            out.append(("addi", dict(rd=r, rs1=r, imm=lo)))
        elif m == "mv":
            out.append(("addi", dict(rd=regno(ops[0]), rs1=regno(ops[1]), imm=0)))
        elif m == "nop":
            out.append(("addi", dict(rd=0, rs1=0, imm=0)))
        elif m == "ecall":
            out.append(("ecall", {}))
        else:
            raise KeyError(m)
        pc += 4 * n
    return out, labels, var, mem


# ---- rendering an item list as source text -----------------------------------------------------------


def render(items, T: Text, directives="auto", data_first=True, decorate=None):
    text, data = [], []
    for it in items:
        if it[0] == "label":
            text.append(it[1] + ":")
        elif it[0] == "data":
            _, name, kind, values = it
            if kind == "string":
                data.append('%s: .string "%s"' % (name, values))
            elif kind == "zero":
                data.append("%s: .zero %s" % (name, T.num(values)))
            else:
                data.append("%s: .%s %s" % (name, kind, ", ".join(T.num(v) for v in values)))
        else:
            _, lab, m, ops = it
            text.append(("%s: " % lab if lab else "") + render_ins(m, ops, T))
    if decorate:
        text = decorate(text)
        data = decorate(data)
    has_data = bool(data)
    if directives == "force":
        pass
    elif directives == "none" or (directives == "auto" and not has_data):
        assert not has_data
        return "\n".join(text)
    if data_first:
        return "\n".join([".data"] + data + [".text"] + text)
    return "\n".join([".text"] + text + [".data"] + data)


def tgt(t, T):
    if t[0] == "num":
        return T.num(t[1])
    return t[1] + (("+" + T.hexnum(t[2])) if t[2] is not None else "")


def render_ins(m, ops, T):
    M = m
    if m in R.R_ALU:
        return "%s %s, %s, %s" % (M, ops[0], ops[1], ops[2])
    if m in R.I_ALU or m in R.I_SHIFT or m == "jalr":
        return "%s %s, %s, %s" % (M, ops[0], ops[1], T.num(ops[2]))
    if m in R.LOADS:
        if ops[0] == "imm":
            return "%s %s, %s(%s)" % (M, ops[1], T.num(ops[2]), ops[3])
        if ops[0] == "reg":
            return "%s %s, %s, %s" % (M, ops[1], ops[2], T.num(ops[3]))
        return "%s %s, %s%s" % (M, ops[1], ops[2], "" if ops[3] is None else "[%s]" % T.num(ops[3]))
    if m in R.STORES:
        if ops[0] == "imm":
            return "%s %s, %s(%s)" % (M, ops[1], T.num(ops[2]), ops[3])
        if ops[0] == "reg":
            return "%s %s, %s, %s" % (M, ops[1], ops[2], T.num(ops[3]))
        return "%s %s, %s%s, %s" % (M, ops[1], ops[2], "" if ops[3] is None else "[%s]" % T.num(ops[3]), ops[4])
    if m in R.BRANCHES:
        return "%s %s, %s, %s" % (M, ops[0], ops[1], tgt(ops[2], T))
    if m == "jal":
        return "%s %s, %s" % (M, ops[0], tgt(ops[1], T))
    if m in ("lui", "auipc", "li"):
        return "%s %s, %s" % (M, ops[0], T.num(ops[1]))
    if m == "la":
        return "%s %s, %s%s" % (M, ops[0], ops[1], "" if ops[2] is None else "[%s]" % T.num(ops[2]))
    if m == "mv":
        return "%s %s, %s" % (M, ops[0], ops[1])
    if m in ("nop", "ecall"):
        return M
    raise KeyError(m)


# ---- reading back the real parser's output -----------------------------------------------------------


def fields_of(ins):
    """(mnemonic, architectural fields) of a real instruction object"""
    m = ins.mnemonic
    k = R.fmt_of(m)
    if k == "R":
        return m, dict(rd=ins.rd, rs1=ins.rs1, rs2=ins.rs2)
    if k in ("I", "SH"):
        return m, dict(rd=ins.rd, rs1=ins.rs1, imm=ins.imm)
    if k == "S":
        return m, dict(rs1=ins.rs1, rs2=ins.rs2, imm=ins.imm)
    if k == "B":
        return m, dict(rs1=ins.rs1, rs2=ins.rs2, imm=ins.imm)
    if k == "U":
        return m, dict(rd=ins.rd, imm=ins.imm)
    if k == "J":
        return m, dict(rd=ins.rd, imm=ins.imm)
    if k == "E":
        return m, {}
    raise KeyError(m)


def loaded_program(sim):
    im = sim.state.instruction_memory
    im = getattr(im, "instruction_memory", im)
    return [(a, im.instructions[a]) for a in sorted(im.instructions.keys())]


def claim_program(e, sim, expected, tag=""):
    """the instruction memory holds exactly `expected` at consecutive addresses from 0"""
    got = loaded_program(sim)
    e.claim(tag + "instruction-count", len(got) == len(expected), {"got": len(got), "expected": len(expected), "listing": [repr(i) for _, i in got][:12] if e.mode != "sym" else None})
    if len(got) != len(expected):
        return False
    ok = True
    for k, ((a, ins), (m, f)) in enumerate(zip(got, expected)):
        ok = e.claim(tag + "address-%d" % k, a == 4 * k) and ok
        gm, gf = fields_of(ins)
        ok = e.claim(tag + "mnemonic-%d" % k, gm == m, {"got": gm, "expected": m}) and ok
        if gm == m:
            for name in f:
                ok = e.claim_eq(tag + "field-%d-%s" % (k, name), gf[name], f[name]) and ok
    return ok
