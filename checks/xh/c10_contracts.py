"""CrossHair (second, independent engine) contracts for the replacement policies (C10).
Each wrapper calls the real LRU / PLRU class; CrossHair searches for a counterexample of the
PEP316 postconditions over all paths within its time budget."""
from typing import List

from architecture_simulator.uarch.memory.replacement_strategies import LRU, PLRU


def lru_access(order: List[int], i: int) -> List[int]:
    """
    pre: 1 <= len(order) <= 4
    pre: sorted(order) == list(range(len(order)))
    pre: 0 <= i < len(order)
    post: len(_) == len(order)
    post: _[-1] == i
    post: [x for x in _ if x != i] == [x for x in order if x != i]
    """
    p = LRU(len(order))
    p.lru = list(order)
    p.access(i)
    return list(p.lru)


def lru_victim(order: List[int]) -> int:
    """
    pre: 1 <= len(order) <= 4
    pre: sorted(order) == list(range(len(order)))
    post: _ == order[0]
    """
    p = LRU(len(order))
    p.lru = list(order)
    return p.get_next_to_replace()


def lru_idempotent(order: List[int], i: int) -> bool:
    """
    pre: 1 <= len(order) <= 4
    pre: sorted(order) == list(range(len(order)))
    pre: 0 <= i < len(order)
    post: _
    """
    p = LRU(len(order))
    p.lru = list(order)
    p.access(i)
    once = list(p.lru)
    p.access(i)
    return once == p.lru


def plru4_victim_avoids_accessed(b0: bool, b1: bool, b2: bool, i: int) -> int:
    """
    pre: 0 <= i < 4
    post: _ != i
    post: 0 <= _ < 4
    """
    p = PLRU(4)
    p.tree_array = [b0, b1, b2]
    p.access(i)
    return p.get_next_to_replace()


def plru4_idempotent(b0: bool, b1: bool, b2: bool, i: int) -> bool:
    """
    pre: 0 <= i < 4
    post: _
    """
    p = PLRU(4)
    p.tree_array = [b0, b1, b2]
    p.access(i)
    once = list(p.tree_array)
    p.access(i)
    return once == p.tree_array


def plru2_points_away(b0: bool, i: int) -> bool:
    """
    pre: 0 <= i < 2
    post: _ == (i == 0)
    """
    p = PLRU(2)
    p.tree_array = [b0]
    p.access(i)
    return p.tree_array[0]


def plru4_path_bits(b0: bool, b1: bool, b2: bool, i: int) -> List[bool]:
    """
    pre: 0 <= i < 4
    post: _[0] == (i < 2)
    post: _[1 if i < 2 else 2] == (i % 2 == 0)
    post: _[2 if i < 2 else 1] == (b2 if i < 2 else b1)
    """
    p = PLRU(4)
    p.tree_array = [b0, b1, b2]
    p.access(i)
    return list(p.tree_array)
