"""C06 TOY execution matches the reference accumulator machine, incl. self-modification.

One inductive step of the real ToySimulation.step() from an arbitrary state: accumulator, pc,
whole memory, instruction register (any 16-bit word), last-instruction address symbolic."""
from __future__ import annotations

from refs import toy_ref as T
from symx.ops import zx, cond, land, lor, lnot, val

PROPERTY = "C06"
LEVEL = "model_checking"
TRUSTED = ["z3 5.1 QF_UFBV", "fixedint model (validated each run)", "refs/toy_ref.py (accumulator machine of the TOY help page)"]
ASSUMPTIONS = [
    "pre-state: any accumulator, any pc, any memory image, any 16-bit word in the instruction register, any last-instruction address in [0,4095]",
    "by induction over steps the claim extends to programs and histories of any length (self-modification included: the fetch reads the post-store memory)",
]
ASSUMPTIONS.append("reuse harness: every ordered pair of 5 TOY program texts (data words symbolic), the first run to completion through run() / step() / the half-cycle API, the second loaded on the same object and compared step by step with a fresh object")
RULE = "one case = one feasible path of ToySimulation.step() (decode of IR x branch x halt x decode of the fetched word), all data symbolic"


def bounds(tier):
    return {"steps": 1, "instruction_words": "all 2^16 (symbolic)", "memory": "total symbolic 4096 x 16-bit store", "reuse_pairs": 25, "reuse_program_steps": "<= 40"}


def h_step(e):
    from symx.state import ToyInputs, mk_toy

    inp = ToyInputs(e)
    sim, store = mk_toy(e, inp)
    st = sim.state
    pre = inp.store.fork()
    ir = st.loaded_instruction
    op_impl = ir.opcode  # concrete on this path (decode forked)
    # decode clause for the executing instruction
    op_word = (inp.ir_word >> 12) & 0xF
    e.claim("decode-opcode", cond("==", op_word, op_impl) if op_impl < 12 else cond(">=", op_word, 12))
    e.claim_eq("decode-address", ir.address, inp.ir_word & 0xFFF)
    e.claim("decode-class", type(ir).__name__ == T.MNEMONIC[min(op_impl, 12)])
    pm = st.performance_metrics
    ret = sim.step()
    # reference
    ref = inp.store.fork()
    accu, pc, branched = T.execute(op_impl, inp.ir_word & 0xFFF, inp.accu, inp.pc, ref.get, ref.set)
    fetched = ref.get(pc)
    halted = not (pc <= inp.max_pc)
    pc2 = zx(pc + 1, 12)
    q = e.int("q", 0, 4095)
    e.observe("accu", st.accu)
    e.observe("pc", st.program_counter)
    e.observe("mem[q]", store.abstract(q))
    e.observe("halted", st.loaded_instruction is None)
    e.claim_eq("accu", val(st.accu), accu)
    e.claim("canary:accu", cond("==", val(st.accu), zx(accu + 1, 16)))
    e.claim("accu-type", type(st.accu).__name__ == "UInt16")
    e.claim_eq("pc", val(st.program_counter), pc2)
    e.claim("canary:pc", cond("==", val(st.program_counter), pc))
    e.claim_eq("memory", store.abstract(q), ref.abstract(q))
    e.claim("halt-iff-pc-past-last", (st.loaded_instruction is None) == halted)
    e.claim("done-iff-halted", sim.is_done() == halted)
    e.claim("step-returns-not-done", ret == (not halted))
    if st.loaded_instruction is not None:
        nir = st.loaded_instruction
        k = nir.opcode
        opw = (fetched >> 12) & 0xF
        e.claim("fetch-decode-opcode", cond("==", opw, k) if k < 12 else cond(">=", opw, 12))
        e.claim_eq("fetch-decode-address", nir.address, fetched & 0xFFF)
        e.claim("fetch-decode-class", type(nir).__name__ == T.MNEMONIC[min(k, 12)])
        e.observe("next-ir", [type(nir).__name__, nir.address])
    e.claim_eq("cycles+2", pm.cycles, 2)
    e.claim_eq("instruction_count+1", pm.instruction_count, 1)
    e.claim_eq("branch_count", pm.branch_count, 1 if branched else 0)
    e.claim("has_started", sim.has_started is True)
    # the same instruction through the half-cycle API costs and counts the same
    twin, _ = mk_toy(e, inp)
    twin.first_cycle_step()
    twin.second_cycle_step()
    tpm = twin.state.performance_metrics
    e.claim_eq("half-cycle-api:cycles+2", tpm.cycles, 2)
    e.claim_eq("half-cycle-api:instruction_count+1", tpm.instruction_count, 1)
    e.claim_eq("half-cycle-api:accu", val(twin.state.accu), accu)
    # once the program has stopped, further step calls neither cost nor count
    if halted:
        r2 = sim.step()
        e.claim("step-after-halt-returns-false", r2 is False)
        e.claim_eq("step-after-halt:cycles", pm.cycles, 2)
        e.claim_eq("step-after-halt:instruction_count", pm.instruction_count, 1)


# ---------------------------------------------------------------------------------------------------
# programs on a simulation object that already ran another program (call history load, run, load,
# run): what executes is what the *current* memory holds, whatever the object decoded before
# ---------------------------------------------------------------------------------------------------

REUSE_TEXTS = [
    # (name, text with {a} {b} = symbolic data words)
    ("count", ".data\nn: .word {a}\nr: .word {b}\n.text\nLDA n\nADD r\nSTO r\nINC\nSTO n"),
    ("logic", ".data\nx: .word {a}\ny: .word {b}\n.text\nLDA x\nXOR y\nNOT\nSTO y\nDEC\nAND x\nSTO x"),
    ("branch", ".data\nx: .word {a}\ny: .word {b}\n.text\nLDA x\nBRZ skip\nLDA y\nskip: OR x\nSTO y"),
    ("selfmod", ".data\nx: .word {a}\ny: .word {b}\n.text\nLDA patch\nSTO slot\nLDA x\nslot: NOP\nSTO x\npatch: ADD y"),
    ("short", ".data\nx: .word {a}\n.text\nZRO\nSUB x\nSTO x"),
]


def _toy_final(e, sim, q):
    st = sim.state
    pm = st.performance_metrics
    return {
        "accu": val(st.accu),
        "pc": val(st.program_counter),
        "mem[q]": val(st.memory.read_halfword(q)),
        "max_pc": val(st.max_pc),
        "halted": st.loaded_instruction is None,
        "cycles": val(pm.cycles),
        "instruction_count": val(pm.instruction_count),
        "branch_count": val(pm.branch_count),
    }


def h_reuse(e, first, second, via):
    """first program loaded and run on a ToySimulation, then the second loaded on the same object and
    run; the result must equal the second program's run on a fresh object.  via = run | step |
    half (stepping API used for the first program)."""
    from architecture_simulator.simulation.toy_simulation import ToySimulation
    from checks.asm import Text

    Tx = Text(e)
    a1, b1 = e.int("a1", 0, 0xFFFF), e.int("b1", 0, 0xFFFF)
    a2, b2 = e.int("a2", 0, 0xFFFF), e.int("b2", 0, 0xFFFF)
    t1 = dict(REUSE_TEXTS)[first].format(a=Tx.num(a1), b=Tx.hexnum(b1))
    t2a = dict(REUSE_TEXTS)[second].format(a=Tx.num(a2), b=Tx.hexnum(b2))
    t2b = dict(REUSE_TEXTS)[second].format(a=Tx.num(a2), b=Tx.hexnum(b2))
    used = ToySimulation()
    used.load_program(t1)
    n = 0
    while not used.is_done() and n < 40:
        if via == "run":
            used.run()
        elif via == "step":
            used.step()
        else:
            used.first_cycle_step()
            used.second_cycle_step()
        n += 1
    e.claim("first-program-terminates", used.is_done())
    used.load_program(t2a)
    fresh = ToySimulation()
    fresh.load_program(t2b)
    k = 0
    while not fresh.is_done() and k < 40:
        fresh.step()
        used.step()
        k += 1
        e.claim_eq("reused-object-executes-what-memory-holds:accu@%d" % k, val(used.state.accu), val(fresh.state.accu))
        e.claim_eq("reused-object-executes-what-memory-holds:pc@%d" % k, val(used.state.program_counter), val(fresh.state.program_counter))
    e.claim("second-program-terminates", fresh.is_done() and used.is_done())
    q = e.concretize(e.int("q", 4090, 4095)) if e.mode == "sym" else e.int("q", 4090, 4095)
    A, B = _toy_final(e, used, q), _toy_final(e, fresh, q)
    e.observe("steps", k)
    e.observe("accu", B["accu"])
    for key in A:
        e.claim_eq("reused==fresh:" + key, A[key], B[key])
    for adr in range(0, 8):
        e.claim_eq("reused==fresh:mem[%d]" % adr, val(used.state.memory.read_halfword(adr)), val(fresh.state.memory.read_halfword(adr)))
    e.claim("canary:reuse", cond("==", A["accu"], B["accu"] + 1))


HARNESSES = {"step": h_step, "reuse": h_reuse}


def jobs(tier, seed):
    out = [{"label": "toy-step", "harness": "step", "args": {}, "cost": 10}]
    names = [n for n, _ in REUSE_TEXTS]
    k = 0
    for f in names:
        for s_ in names:
            via = ("run", "step", "half")[k % 3]
            k += 1
            out.append({"label": "reuse-%s-%s-%s" % (f, s_, via), "harness": "reuse", "args": {"first": f, "second": s_, "via": via}, "cost": 3, "validate_every": 1, "hard_wall_s": 120})
    return out


if __name__ == "__main__":
    from symx import runner
    import checks.c06 as me

    runner.main(me)
