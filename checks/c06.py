"""C06 TOY execution matches the reference accumulator machine, incl. self-modification.

One inductive step of the real ToySimulation.step() from an arbitrary state: accumulator, pc,
whole memory, instruction register (any 16-bit word), last-instruction address symbolic."""
from __future__ import annotations

from refs import toy_ref as T
from symx.ops import zx, cond, land, lor, lnot, val

PROPERTY = "C06"
LEVEL = "model_checking"
TRUSTED = ["z3 5.1 QF_UFBV", "fixedint model (validated each run)", "refs/toy_ref.py (accumulator machine of the TOY help page)"]
ASSUMPTIONS = [
    "pre-state: any accumulator, any pc, any memory image, any 16-bit word in the instruction register, any last-instruction address in [0,4095]",
    "by induction over steps the claim extends to programs and histories of any length (self-modification included: the fetch reads the post-store memory)",
]
RULE = "one case = one feasible path of ToySimulation.step() (decode of IR x branch x halt x decode of the fetched word), all data symbolic"


def bounds(tier):
    return {"steps": 1, "instruction_words": "all 2^16 (symbolic)", "memory": "total symbolic 4096 x 16-bit store"}


def h_step(e):
    from symx.state import ToyInputs, mk_toy

    inp = ToyInputs(e)
    sim, store = mk_toy(e, inp)
    st = sim.state
    pre = inp.store.fork()
    ir = st.loaded_instruction
    op_impl = ir.opcode  # concrete on this path (decode forked)
    # decode clause for the executing instruction
    op_word = (inp.ir_word >> 12) & 0xF
    e.claim("decode-opcode", cond("==", op_word, op_impl) if op_impl < 12 else cond(">=", op_word, 12))
    e.claim_eq("decode-address", ir.address, inp.ir_word & 0xFFF)
    e.claim("decode-class", type(ir).__name__ == T.MNEMONIC[min(op_impl, 12)])
    pm = st.performance_metrics
    ret = sim.step()
    # reference
    ref = inp.store.fork()
    accu, pc, branched = T.execute(op_impl, inp.ir_word & 0xFFF, inp.accu, inp.pc, ref.get, ref.set)
    fetched = ref.get(pc)
    halted = not (pc <= inp.max_pc)
    pc2 = zx(pc + 1, 12)
    q = e.int("q", 0, 4095)
    e.observe("accu", st.accu)
    e.observe("pc", st.program_counter)
    e.observe("mem[q]", store.abstract(q))
    e.observe("halted", st.loaded_instruction is None)
    e.claim_eq("accu", val(st.accu), accu)
    e.claim("canary:accu", cond("==", val(st.accu), zx(accu + 1, 16)))
    e.claim("accu-type", type(st.accu).__name__ == "UInt16")
    e.claim_eq("pc", val(st.program_counter), pc2)
    e.claim("canary:pc", cond("==", val(st.program_counter), pc))
    e.claim_eq("memory", store.abstract(q), ref.abstract(q))
    e.claim("halt-iff-pc-past-last", (st.loaded_instruction is None) == halted)
    e.claim("done-iff-halted", sim.is_done() == halted)
    e.claim("step-returns-not-done", ret == (not halted))
    if st.loaded_instruction is not None:
        nir = st.loaded_instruction
        k = nir.opcode
        opw = (fetched >> 12) & 0xF
        e.claim("fetch-decode-opcode", cond("==", opw, k) if k < 12 else cond(">=", opw, 12))
        e.claim_eq("fetch-decode-address", nir.address, fetched & 0xFFF)
        e.claim("fetch-decode-class", type(nir).__name__ == T.MNEMONIC[min(k, 12)])
        e.observe("next-ir", [type(nir).__name__, nir.address])
    e.claim_eq("cycles+2", pm.cycles, 2)
    e.claim_eq("instruction_count+1", pm.instruction_count, 1)
    e.claim_eq("branch_count", pm.branch_count, 1 if branched else 0)
    e.claim("has_started", sim.has_started is True)


HARNESSES = {"step": h_step}


def jobs(tier, seed):
    return [{"label": "toy-step", "harness": "step", "args": {}, "cost": 10}]


if __name__ == "__main__":
    from symx import runner
    import checks.c06 as me

    runner.main(me)
