"""C09 Data-cache hit/miss accounting and miss penalties match a reference cache."""
from __future__ import annotations

from checks import cachestep

PROPERTY = "C09"
LEVEL = "model_checking"
TRUSTED = ["z3 5.1 QF_UFBV", "fixedint model (validated each run)", "the representation invariant, logical-memory abstraction and reference cache written in checks/cachestep.py"]
ASSUMPTIONS = [
    "step harness: one operation from an arbitrary cache state satisfying the representation invariant of C03 (re-proved after every operation there), hence histories of any length",
    "history harness: 3 operations from a reset cache, addresses symbolic in a 16-byte window plus symbolic multiples of the cache size, values symbolic",
    "accesses rejected for crossing a word boundary or leaving the address range are outside the accounting claim",
    "program clause (each executed load/store counts exactly once, identical counters in both modes) is checked on bounded symbolic programs with a cache (harness 'prog')",
]
RULE = "one case = one feasible path of one cache operation from a symbolic invariant state, or of a 3-operation history from a reset cache"
MAXTASKS = 30


def bounds(tier):
    return {"geometries(index_bits, block_bits, ways)": cachestep.geometries(tier), "operations": cachestep.OPS, "history_length": 3}


def h_step(e, **kw):
    return cachestep.h_step(e, **kw)


def h_history(e, **kw):
    return cachestep.h_history(e, **kw)


def h_prog(e, **kw):
    return cachestep.h_prog_dcache(e, **kw)


def h_config(e, **kw):
    return cachestep.h_config(e, **kw)


def h_deep(e, **kw):
    return cachestep.h_deep(e, **kw)


HARNESSES = {"step": h_step, "history": h_history, "prog": h_prog, "config": h_config, "deep": h_deep}


def jobs(tier, seed):
    return cachestep.step_jobs(tier, {"C09"}, "checks.c09") + cachestep.history_jobs(tier, {"C09"}, "checks.c09") + cachestep.deep_jobs(tier, {"C09"}, "checks.c09") + extra_jobs(tier, seed)


def extra_jobs(tier, seed):
    return cachestep.prog_jobs(tier, seed, {"C09"}, "checks.c09") + cachestep.config_jobs("checks.c09")


BUDGET = {"quick": None, "thorough": 12 * 60}

if __name__ == "__main__":
    from symx import runner
    import checks.c09 as me

    runner.main(me)
