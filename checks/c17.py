"""C17 Displayed values are faithful in all four number representations.

The real formatter get_n_bit_representations (n in {12,16,32}) runs on a symbolic number in
[-2^40, 2^40]; its output strings are real str objects whose digit characters are unit
placeholders (one symbolic digit each), so the repository's own grouping code (reversal, slicing,
join) acts on them.  Claims: after removing the separators found exactly after every 8th (bin) /
2nd (hex) character from the right, character k is the digit of bit / nibble n-1-k of the value;
the decimal strings render value mod 2^n and its two's-complement reading.  Register and memory
tables are checked on states with symbolic values at enumerated positions / byte addresses."""
from __future__ import annotations

import itertools

from symx.ops import zx, sx, val, cond, land

PROPERTY = "C17"
LEVEL = "model_checking"
TRUSTED = [
    "z3 5.1 QF_UFBV",
    "CPython's str(int) (decimal strings are compared as (renderer, value)); fixed-width binary / hexadecimal renderings are modelled digit by digit (validated against the real renderings by the concrete oracle on every path)",
    "fixedint model (validated each run)",
]
ASSUMPTIONS = [
    "formatter input symbolic in [-2^40, 2^40] (negative and over-wide inputs included)",
    "register table: symbolic values at two enumerated positions, all other registers concrete boundary values; memory tables: every subset of <= 3 written bytes (written in ascending, descending and rotated order) out of 9 candidate byte addresses in three words (first word of the data segment, its neighbour, last word of the address space) with symbolic byte values",
]
RULE = "one case = one feasible path of a formatter / table call with symbolic values"


def bounds(tier):
    return {"widths": [12, 16, 32], "register_positions": "pairs from (0,1,5,10,17,31)", "memory_subsets": "all subsets of size <= 3 of 9 byte addresses"}


def check_reprs(e, tag, reprs, v, n):
    """reprs = (bin, udec, hex, sdec) strings; v = the value they must denote (any int-like)"""
    from symx import text as T

    u = zx(v, n)
    b, ud, hx, sd = reprs
    ok = True

    def digits(s, group, kind, per):
        toks = T.decode(s) if e.mode == "sym" else [("lit", ch) for ch in s]
        ndig = n // per if n % per == 0 else n // per + 1
        nsep = (ndig - 1) // group
        if len(toks) != ndig + nsep:
            e.claim("%s:%s-length" % (tag, kind), False, {"len": len(toks), "want": ndig + nsep})
            return False
        good = True
        for i, tok in enumerate(reversed(toks)):
            if (i + 1) % (group + 1) == 0:
                good = e.claim("%s:%s-separator-%d" % (tag, kind, i), tok == ("lit", " ")) and good
                continue
            d = i - i // (group + 1)
            want = (u >> (per * d)) & ((1 << per) - 1)
            if tok[0] == "unit":
                good = e.claim("%s:%s-digit-%d" % (tag, kind, d), tok[1] == ("bin" if per == 1 else "hexU") and True) and good
                good = e.claim_eq("%s:%s-digit-value-%d" % (tag, kind, d), tok[2], want) and good
            elif tok[0] == "lit":
                alphabet = "01" if per == 1 else "0123456789ABCDEF"
                good = e.claim("%s:%s-char-%d" % (tag, kind, d), tok[1] in alphabet, {"char": tok[1]}) and good
                if tok[1] in alphabet:
                    good = e.claim_eq("%s:%s-digit-value-%d" % (tag, kind, d), alphabet.index(tok[1]), want) and good
            else:
                good = e.claim("%s:%s-token-%d" % (tag, kind, d), False, {"tok": tok[0]}) and good
        return good

    ok = digits(b, 8, "bin", 1) and ok
    ok = digits(hx, 2, "hex", 4) and ok

    def dec(s, want, kind):
        if e.mode != "sym":
            # same claim label as the symbolic run, so that a counterexample can be confirmed
            return e.claim("%s:%s-value" % (tag, kind), s == str(want), {"got": s})
        toks = T.decode(s)
        if len(toks) == 1 and toks[0][0] == "span":
            g = e.claim("%s:%s-renderer" % (tag, kind), toks[0][1] in ("", "d"))
            return e.claim_eq("%s:%s-value" % (tag, kind), toks[0][2], want) and g
        if all(t[0] == "lit" for t in toks):
            txt = "".join(t[1] for t in toks)
            return e.claim_eq("%s:%s-value" % (tag, kind), int(txt), want)
        return e.claim("%s:%s-shape" % (tag, kind), False)

    ok = dec(ud, u, "udec") and ok
    ok = dec(sd, sx(u, n), "sdec") and ok
    return ok


def h_formatter(e, n):
    from architecture_simulator.util.integer_representations import get_n_bit_representations, get_12_bit_representations, get_16_bit_representations, get_32_bit_representations

    x = e.int("x", -(2**40), 2**40)
    r = get_n_bit_representations(x, n)
    e.observe("reprs", list(r))
    e.claim("four-strings", len(r) == 4 and all(isinstance(s, str) for s in r))
    check_reprs(e, "fmt%d" % n, r, x, n)
    short = {12: get_12_bit_representations, 16: get_16_bit_representations, 32: get_32_bit_representations}[n](x)
    e.claim_eq("shorthand-agrees", list(short), list(r))
    e.claim("canary:fmt", cond("==", zx(x, n), zx(x, n) + 1))


BOUNDARY = [0, 1, 0x7FFFFFFF, 0x80000000, 0xFFFFFFFF, 0x12345678, 0x0000FF00, 0xDEADBEEF]


def h_registers(e, i, j):
    """register table: symbolic values at positions i and j"""
    from architecture_simulator.simulation.riscv_simulation import RiscvSimulation
    from symx.state import fx

    f = fx()
    sim = RiscvSimulation()
    regs = sim.state.register_file.registers
    vals = [0] * 32
    for k in range(1, 32):
        vals[k] = BOUNDARY[k % len(BOUNDARY)]
    a, b = e.int("a", 0, 2**32 - 1), e.int("b", 0, 2**32 - 1)
    vals[i], vals[j] = a, b
    for k in range(1, 32):
        regs[k] = f.UInt32(vals[k])
    vals[0] = 0
    rows = sim.get_register_entries()
    e.claim("32-rows", len(rows) == 32)
    e.observe("row", list(rows[j]))
    for k in range(32):
        check_reprs(e, "x%d" % k, rows[k], vals[k], 32)
    e.claim("canary:regs", len(rows) == 31)


CAND = [2**14, 2**14 + 1, 2**14 + 3, 2**14 + 4, 2**14 + 6, 2**14 + 7, 2**32 - 4, 2**32 - 2, 2**32 - 1]


def h_memory(e, subset, cached, order="asc", after="none"):
    """data-memory table after writing the bytes `subset` (indices into CAND) with symbolic values"""
    from architecture_simulator.simulation.riscv_simulation import RiscvSimulation
    from symx.state import fx, cache_options

    f = fx()
    sim = RiscvSimulation(data_cache=cache_options(True, 1, 0, 2, "wt", "lru", 0)) if cached else RiscvSimulation()
    mem = sim.state.memory
    written = {}
    seq = list(enumerate(subset))
    if order == "desc":
        seq.reverse()
    elif order == "rot" and len(seq) > 1:
        seq = seq[1:] + seq[:1]
    for n_, k in seq:
        v = e.int("b%d" % n_, 0, 255)
        mem.write_byte(CAND[k], f.UInt8(v), True) if cached else mem.write_byte(CAND[k], f.UInt8(v))
        written[CAND[k]] = v
    # reads of never-written locations (next to the written bytes and far from them) leave no row
    for ra in (2**14 + 64, 2**14 + 8, 2**32 - 8):
        r_ = mem.read_word(ra, False) if cached else mem.read_word(ra)
        e.claim_eq("unwritten-word-reads-zero@%x" % ra, val(r_), 0)
    rows = sim.get_data_memory_entries()
    words = sorted({a & ~3 for a in written})
    e.observe("addresses", [r[0][0] for r in rows])
    e.claim("rows-are-exactly-the-written-words-ascending", [r[0][0] for r in rows] == words, {"rows": [r[0][0] for r in rows], "want": words})
    for r in rows:
        a = r[0][0]
        e.claim("hex-address-%d" % a, r[0][1] == "0x%08X" % a, {"got": r[0][1]})
        w = 0
        for i in range(4):
            w = w | (written.get(a + i, 0) << (8 * i))
        check_reprs(e, "word@%x" % a, r[1], w, 32)
    e.claim("canary:mem", len(rows) == len(words) + 1)
    if after == "none":
        return
    if after == "partial":
        # a store that starts on the last byte of the address space and runs off its end: the byte
        # written before the address error is in the backing store (C18), so the table shows it
        from architecture_simulator.uarch.memory.memory import MemoryAddressError

        v2 = e.int("after", 0, 0xFFFF)
        raised = False
        try:
            mem.write_halfword(0xFFFFFFFF, f.UInt16(v2))
        except MemoryAddressError:
            raised = True
        e.claim("store-off-the-end-raises", raised)
        written[0xFFFFFFFF] = v2 & 0xFF
        rows4 = sim.get_data_memory_entries()
        words4 = sorted({a & ~3 for a in written})
        e.claim("rows-after-partial-store", [r[0][0] for r in rows4] == words4, {"rows": [r[0][0] for r in rows4], "want": words4})
        for r in rows4:
            a = r[0][0]
            w = 0
            for i in range(4):
                w = w | (written.get(a + i, 0) << (8 * i))
            check_reprs(e, "after-partial@%x" % a, r[1], w, 32)
        return
    # the table follows the store through a reset / a reload: no row of the previous contents
    # remains, and the next written byte shows up with its current value
    if after == "reset":
        mem.reset()
    else:
        sim.load_program("addi x0, x0, 0")
        mem = sim.state.memory
    rows2 = sim.get_data_memory_entries()
    e.claim("table-empty-after-%s" % after, list(rows2) == [], {"rows": [r[0][0] for r in rows2]})
    v2 = e.int("after", 0, 255)
    k2 = CAND[subset[0]] if subset else CAND[0]
    mem.write_byte(k2, f.UInt8(v2), True) if cached else mem.write_byte(k2, f.UInt8(v2))
    rows3 = sim.get_data_memory_entries()
    e.claim("one-row-after-%s-and-write" % after, [r[0][0] for r in rows3] == [k2 & ~3], {"rows": [r[0][0] for r in rows3]})
    for r in rows3:
        check_reprs(e, "after-%s@%x" % (after, r[0][0]), r[1], v2 << (8 * (k2 & 3)), 32)


def h_toy(e):
    from symx.state import ToyInputs, mk_toy

    inp = ToyInputs(e, mem_size=2, pc_full=True)  # the program counter takes every 12-bit value
    sim, _ = mk_toy(e, inp)
    reps = sim.get_register_representations()
    e.observe("accu", list(reps["accu"]))
    check_reprs(e, "accu", reps["accu"], inp.accu, 16)
    check_reprs(e, "pc", reps["pc"], inp.pc, 12)
    check_reprs(e, "ir", reps["ir"], sim.state.loaded_instruction.to_integer(), 16)
    rows = sim.get_memory_table_entries()
    e.claim("rows-ascending", [r[0][0] for r in rows] == [0, 1])
    for r in rows:
        a = r[0][0]
        e.claim("hex-address-%d" % a, r[0][1] == "0x%03X" % a)
        check_reprs(e, "cell%d" % a, r[1], inp.cells[a], 16)
    e.claim("canary:toy", len(rows) == 3)


HARNESSES = {"formatter": h_formatter, "registers": h_registers, "memory": h_memory, "toy": h_toy}


def jobs(tier, seed):
    out = []
    for n in (12, 16, 32):
        out.append({"label": "formatter-%d" % n, "harness": "formatter", "args": {"n": n}, "cost": 3})
    pos = (0, 1, 5, 10, 17, 31)
    pairs = list(itertools.combinations(pos, 2))
    for k, (i, j) in enumerate(pairs):
        if tier == "quick" and (k + seed) % 3 != 0:
            continue
        out.append({"label": "registers-%d-%d" % (i, j), "harness": "registers", "args": {"i": i, "j": j}, "cost": 5})
    subsets = [()] + [c for r in (1, 2, 3) for c in itertools.combinations(range(len(CAND)), r)]
    for k, s in enumerate(subsets):
        if tier == "quick" and len(s) == 3 and (k + seed) % 4 != 0:
            continue
        for order in (("asc",) if len(s) < 2 else ("asc", "desc") if len(s) == 2 else ("asc", "desc", "rot")):
            after = ("none", "reset", "reload")[(k + len(order)) % 3] if len(s) <= 2 else "none"
            out.append({"label": "memory-%s-%s%s" % ("_".join(map(str, s)), order, "" if after == "none" else "-" + after), "harness": "memory", "args": {"subset": list(s), "cached": bool(len(s) and k % 5 == 0), "order": order, "after": after}, "cost": 2, "validate_every": 2})
    for s_ in ([], [0], [len(CAND) - 1], [0, len(CAND) - 1], [len(CAND) - 2], [1, 4]):
        out.append({"label": "memory-%s-partial" % "_".join(map(str, s_)), "harness": "memory", "args": {"subset": s_, "cached": False, "order": "asc", "after": "partial"}, "cost": 2, "validate_every": 1})
    out.append({"label": "toy", "harness": "toy", "args": {}, "cost": 5})
    return out


if __name__ == "__main__":
    from symx import runner
    import checks.c17 as me

    runner.main(me)
