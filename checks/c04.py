"""C04 Assembler: labels and pseudo-instructions denote the right instructions.

The real load_program assembles program texts enumerated from line shapes (real and pseudo
instructions, stand-alone and in-line labels at every position incl. on expanding pseudos and at
the end, label / label+offset / numeric branch and jump operands, with and without segment
directives); every numeric literal is symbolic.  The instruction memory is compared field by
field with the reference assembler of checks/asm.py.  Finite spelling sets (register names,
mnemonic letter case, number bases) and comment/blank-line/indentation decorations are
enumerated completely."""
from __future__ import annotations

import itertools

from checks import asm
from checks.asm import Text
from refs import riscv_ref as R
from symx.ops import zx, sx, val, cond

PROPERTY = "C04"
LEVEL = "model_checking"
TRUSTED = [
    "z3 5.1 QF_UFBV",
    "fixedint model (validated each run)",
    "pyparsing's matching of a concrete line; a decimal / 0x literal stands for any literal of the same lexical class (sentinel literals; conversion base checked against the spelling)",
    "checks/asm.py reference assembler (documented syntax: riscv_instructions.json and the help page)",
]
ASSUMPTIONS = [
    "programs: all sequences of <= 2 (quick) / 3 (thorough, sampled for length 3) instruction lines over 17 line shapes, one label placed at every position (stand-alone or in-line), one data variable",
    "immediates symbolic in the encodable range of their format (branch/jump numeric operands even); li constants in [-2^33, 2^33]; label offsets (+0x..) in [0, 64] and even; array indices in [0,7]",
    "the documented effect of pseudo-instruction groups is established by executing them in C05 (li/la/load/store by name) and by C01 for the base instructions (nop, mv are single addi)",
    "texts outside these shapes ('#' inside strings, arbitrary token sequences) are outside the claim",
]
RULE = "one case = one feasible path of load_program for one (skeleton, label placement) with every numeric literal symbolic; spelling/decoration jobs enumerate a finite set of concrete texts"
MAXTASKS = 40

DECOY_NAMES = ["mul", "Or", "AND", "lw", "li", "nop", "mv", "la", "a0", "zero", "ecall", "x5", "beq", "jal", "sb", "div", "lui", "text", "data", "word"]
SHAPES = ["add", "addi", "lw_imm", "sw_reg", "lui", "nop", "mv", "li", "la", "lw_var", "sb_var", "beq_label", "jal_label_off", "beq_num", "jal_num", "ecall", "lb_reg"]


def bounds(tier):
    return {"line_shapes": SHAPES, "instruction_lines": "<=2" if tier == "quick" else "<=2 all, a VERIF_SEED-rotated eighth of length 3", "label_placements": "every position, stand-alone and in-line"}


def mk_line(e, shape, k):
    """-> item ('ins', None, mnemonic, operands) with symbolic numerics named by position k"""
    I = lambda n, lo, hi: e.int("l%d_%s" % (k, n), lo, hi)
    regs = [("t0", "x6", "s1"), ("x7", "a0", "x0"), ("ra", "x31", "t6")][k % 3]
    a, b, c = regs
    if shape == "add":
        return ("ins", None, "add", (a, b, c))
    if shape == "addi":
        return ("ins", None, "addi", (a, b, I("imm", -2048, 2047)))
    if shape == "lw_imm":
        return ("ins", None, "lw", ("imm", a, I("imm", -2048, 2047), b))
    if shape == "lb_reg":
        return ("ins", None, "lb", ("reg", a, b, I("imm", -2048, 2047)))
    if shape == "sw_reg":
        return ("ins", None, "sw", ("reg", a, b, I("imm", -2048, 2047)))
    if shape == "lui":
        return ("ins", None, "lui", (a, I("imm", 0, 2**20 - 1)))
    if shape == "nop":
        return ("ins", None, "nop", ())
    if shape == "mv":
        return ("ins", None, "mv", (a, b))
    if shape == "li":
        return ("ins", None, "li", (a, I("c", -(2**33), 2**33)))
    if shape == "la":
        return ("ins", None, "la", (a, "var", I("idx", 0, 7)))
    if shape == "lw_var":
        return ("ins", None, "lw", ("var", a, "var", None))
    if shape == "sb_var":
        return ("ins", None, "sb", ("var", a, "var", I("idx", 0, 7), b))
    if shape == "beq_label":
        return ("ins", None, "beq", (a, b, ("label", "target", None)))
    if shape == "jal_label_off":
        return ("ins", None, "jal", (a, ("label", "target", 2 * I("off", 0, 32))))
    if shape == "beq_num":
        return ("ins", None, "beq", (a, b, ("num", 2 * I("immh", -2048, 2047))))
    if shape == "jal_num":
        return ("ins", None, "jal", (a, ("num", 2 * I("addrh", 0, 2**19 - 1))))
    if shape == "ecall":
        return ("ins", None, "ecall", ())
    raise KeyError(shape)


def h_prog(e, shapes, directives, via="load", decoy=None):
    """directives: 'none' (no segment directives; only if no variable is used), 'data_first', 'text_first';
    via: 'load' = RiscvSimulation.load_program, 'parser' = RiscvParser().parse(text, state) into a
    state that already holds a longer program (the parser API the repository's tests use)"""
    from architecture_simulator.simulation.riscv_simulation import RiscvSimulation

    T = Text(e)
    lines = [mk_line(e, s, k) for k, s in enumerate(shapes)]
    n = len(lines)
    # label placement: position p in 0..n (n = end of program), stand-alone or in-line
    p = e.choose(n + 1)
    inline = e.choose(2) == 1 if p < n else False
    items = []
    for k, it in enumerate(lines):
        if k == p:
            if inline:
                it = ("ins", "target", it[2], it[3])
            else:
                items.append(("label", "target"))
        items.append(it)
    if p == n:
        items.append(("label", "target"))
    if decoy is not None:
        # a second, unreferenced label on its own line whose name spells a mnemonic, a pseudo-
        # instruction or a register: label names never influence what is assembled
        d = e.choose(len(items) + 1)
        items.insert(d, ("label", decoy))
    uses_var = any(s in ("la", "lw_var", "sb_var") for s in shapes)
    data = [("data", "pad", "byte", [e.int("pad", 0, 255)]), ("data", "var", "word", [e.int("w0", 0, 2**32 - 1), e.int("w1", 0, 2**32 - 1)])]
    if uses_var or directives != "none":
        items = data + items
        text = asm.render(items, T, directives="force", data_first=(directives != "text_first"))
    else:
        text = asm.render(items, T, directives="none")
    sim = RiscvSimulation()
    try:
        if via == "parser":
            from architecture_simulator.isa.riscv.riscv_parser import RiscvParser

            RiscvParser().parse("\n".join(["addi x%d, x0, %d" % (k + 1, k) for k in range(12)]), sim.state)
            RiscvParser().parse(text, sim.state)
        else:
            sim.load_program(text)
        exc = None
    except Exception as ex:  # noqa
        exc = ex
    e.observe("exception", type(exc).__name__ if exc else None)
    e.claim("assembles", exc is None, {"exception": repr(exc)[:200], "text": text if e.mode != "sym" else None, "placement": [p, inline]})
    if exc is not None:
        return "error"
    exp, labels, var, mem = asm.expand(items, e)
    ok = asm.claim_program(e, sim, exp)
    e.observe("listing-length", len(exp))
    e.claim("canary:count", len(asm.loaded_program(sim)) == len(exp) + 1)
    return "ok"


# ---- finite spelling sets (complete enumeration of concrete texts) ---------------------------------


def h_registers(e, name):
    """every ABI / xN register name in every operand position"""
    from architecture_simulator.simulation.riscv_simulation import RiscvSimulation

    n = asm.regno(name)
    sim = RiscvSimulation()
    sim.load_program("add %s, x1, x2\nadd x3, %s, x4\nadd x5, x6, %s\nlw %s, 4(%s)\nsw %s, 8(%s)\nbeq %s, %s, 8\njal %s, 0\nlui %s, 1" % ((name,) * 11))
    got = [asm.fields_of(i)[1] for _, i in asm.loaded_program(sim)]
    e.observe("fields", got)
    e.claim("rd", got[0]["rd"] == n and got[0]["rs1"] == 1 and got[0]["rs2"] == 2)
    e.claim("rs1", got[1]["rs1"] == n and got[1]["rd"] == 3)
    e.claim("rs2", got[2]["rs2"] == n and got[2]["rs1"] == 6)
    e.claim("load", got[3]["rd"] == n and got[3]["rs1"] == n and got[3]["imm"] == 4)
    e.claim("store", got[4]["rs2"] == n and got[4]["rs1"] == n and got[4]["imm"] == 8)
    e.claim("branch", got[5]["rs1"] == n and got[5]["rs2"] == n)
    e.claim("jal", got[6]["rd"] == n)
    e.claim("lui", got[7]["rd"] == n)
    e.claim("canary:reg", got[0]["rd"] == n + 1)


MNEMONIC_LINES = {
    "add": "%s x1, x2, x3", "sub": "%s x1, x2, x3", "sll": "%s x1, x2, x3", "slt": "%s x1, x2, x3", "sltu": "%s x1, x2, x3", "xor": "%s x1, x2, x3",
    "srl": "%s x1, x2, x3", "sra": "%s x1, x2, x3", "or": "%s x1, x2, x3", "and": "%s x1, x2, x3", "mul": "%s x1, x2, x3", "mulh": "%s x1, x2, x3",
    "mulhu": "%s x1, x2, x3", "mulhsu": "%s x1, x2, x3", "div": "%s x1, x2, x3", "divu": "%s x1, x2, x3", "rem": "%s x1, x2, x3", "remu": "%s x1, x2, x3",
    "addi": "%s x1, x2, 3", "slti": "%s x1, x2, 3", "sltiu": "%s x1, x2, 3", "xori": "%s x1, x2, 3", "ori": "%s x1, x2, 3", "andi": "%s x1, x2, 3",
    "slli": "%s x1, x2, 3", "srli": "%s x1, x2, 3", "srai": "%s x1, x2, 3", "lb": "%s x1, 3(x2)", "lh": "%s x1, 3(x2)", "lw": "%s x1, 3(x2)",
    "lbu": "%s x1, 3(x2)", "lhu": "%s x1, 3(x2)", "jalr": "%s x1, x2, 3", "sb": "%s x1, 3(x2)", "sh": "%s x1, 3(x2)", "sw": "%s x1, 3(x2)",
    "beq": "%s x1, x2, 4", "bne": "%s x1, x2, 4", "blt": "%s x1, x2, 4", "bge": "%s x1, x2, 4", "bltu": "%s x1, x2, 4", "bgeu": "%s x1, x2, 4",
    "lui": "%s x1, 3", "auipc": "%s x1, 3", "jal": "%s x1, 4", "ecall": "%s", "nop": "%s", "mv": "%s x1, x2", "li": "%s x1, 3", "la": "%s x1, v",
}


def h_case(e, m):
    """every letter-case pattern of a mnemonic assembles to the same instruction"""
    from architecture_simulator.simulation.riscv_simulation import RiscvSimulation

    def assemble(sp):
        sim = RiscvSimulation()
        line = MNEMONIC_LINES[m] % sp
        sim.load_program((".data\nv: .word 1\n.text\n" if m == "la" else "") + line)
        return [(type(i).__name__, repr(i)) for _, i in asm.loaded_program(sim)]

    base = assemble(m)
    e.observe("base", base)
    e.claim("assembles", len(base) >= 1)
    n = 0
    bad = []
    for bits in range(1 << len(m)):
        sp = "".join(ch.upper() if bits >> i & 1 else ch for i, ch in enumerate(m))
        try:
            got = assemble(sp)
        except Exception as ex:  # noqa
            got = type(ex).__name__
        n += 1
        if got != base:
            bad.append((sp, got))
    e.claim("case-insensitive", not bad, {"bad": bad[:5], "patterns": n})
    e.claim("canary:case", n == 0)


NUMBER_SPELLINGS = [
    ("0", 0), ("7", 7), ("-7", -7), ("2047", 2047), ("-2048", -2048), ("0x7f", 127), ("-0x7F", -127), ("0xaB", 171), ("0b101", 5), ("-0b11", -3),
    ("0x0", 0), ("0b0", 0), ("0x7FF", 2047), ("-0x800", -2048), ("0b11111111111", 2047),
]


def h_numbers(e, i):
    from architecture_simulator.simulation.riscv_simulation import RiscvSimulation

    sp, v = NUMBER_SPELLINGS[i]
    sim = RiscvSimulation()
    sim.load_program("addi x1, x2, %s\nlw x1, %s(x2)\nsw x1, x2, %s\n.data\nb: .byte %s\nw: .word %s" % (sp, sp, sp, sp, sp))
    got = [asm.fields_of(x)[1] for _, x in asm.loaded_program(sim)]
    e.observe("imm", [g["imm"] for g in got])
    e.claim("addi", got[0]["imm"] == v)
    e.claim("lw", got[1]["imm"] == v)
    e.claim("sw", got[2]["imm"] == v)
    m = sim.state.memory
    e.claim("byte", int(m.read_byte(2**14)) == v % 256)
    e.claim("word", int(m.read_word(2**14 + 4)) == v % 2**32)
    e.claim("canary:num", got[0]["imm"] == v + 1)


BASE_PROGRAMS = [
    "addi x1, x0, 5\nloop: addi x1, x1, -1\nbne x1, x0, loop\necall",
    ".data\nv: .word 1, 2\ns: .string \"a b\"\n.text\nstart:\nla x1, v\nlw x2, v[1]\nli x3, 0x12345\nsw x3, v, x4\njal x0, start+0x8",
    "nop\nmv x1, x2\nend:",
    ".text\nx: li t0, 70000\nbeq t0, t0, x\n.data\nq: .half 1, 2, 3",
]


def decorations(lines):
    """decorated variants of a program: comment lines, trailing comments, blank lines, leading /
    trailing blanks and tabs"""
    out = []
    out.append("\n".join("# header\n" + l for l in lines))
    out.append("\n".join(l + " # trailing comment" for l in lines))
    out.append("\n\n".join(lines) + "\n\n")
    out.append("\n".join("   \t" + l + "  \t " for l in lines))
    out.append("\n".join(l + "#x" for l in lines) + "\n#\n   # end\n")
    out.append("\n \t \n".join("\t" + l for l in lines))
    out.append("#a\n\n" + "\n".join(lines) + "\n\n#z")
    return out


def h_decor(e, i):
    from architecture_simulator.simulation.riscv_simulation import RiscvSimulation

    def snap(text):
        sim = RiscvSimulation()
        sim.load_program(text)
        lower = sim.state.memory
        return ([(a, type(x).__name__, repr(x)) for a, x in asm.loaded_program(sim)], sorted((k, int(v)) for k, v in lower.memory_file.items()))

    base = BASE_PROGRAMS[i]
    want = snap(base)
    e.observe("n", len(want[0]))
    bad = []
    for d in decorations(base.split("\n")):
        try:
            got = snap(d)
        except Exception as ex:  # noqa
            got = type(ex).__name__
        if got != want:
            bad.append((d[:80], got if isinstance(got, str) else "differs"))
    e.claim("decorations-do-not-change-result", not bad, {"bad": bad[:3]})
    e.claim("canary:decor", want[0] == [])


HARNESSES = {"prog": h_prog, "registers": h_registers, "case": h_case, "numbers": h_numbers, "decor": h_decor}


def jobs(tier, seed):
    out = []
    for n in (1, 2):
        for sk in itertools.product(SHAPES, repeat=n):
            sk = list(sk)
            dirs = ["none", "data_first"] if n == 1 else [("none", "data_first", "text_first")[(SHAPES.index(sk[0]) + SHAPES.index(sk[1])) % 3]]
            for d in dirs:
                out.append({"label": "prog-%s-%s" % (".".join(sk), d), "harness": "prog", "args": {"shapes": sk, "directives": d}, "cost": 3 * n, "validate_every": 2})
    for sk in SHAPES:
        out.append({"label": "reparse-%s" % sk, "harness": "prog", "args": {"shapes": [sk], "directives": "none" if sk not in ("la", "lw_var", "sb_var") else "data_first", "via": "parser"}, "cost": 3, "validate_every": 2})
    for i, nm in enumerate(DECOY_NAMES):
        for sk in (["li", "beq_label"], ["add", "jal_label_off"], ["la", "beq_label"]) if tier != "quick" else ([["li", "beq_label"], ["add", "jal_label_off"], ["la", "beq_label"]][i % 3],):
            out.append({"label": "decoy-%s-%s" % (nm, ".".join(sk)), "harness": "prog", "args": {"shapes": sk, "directives": "data_first" if "la" in sk else "none", "decoy": nm}, "cost": 6, "validate_every": 3})
    if tier == "thorough":
        for i, sk in enumerate(itertools.product(SHAPES, repeat=3)):
            if (i + seed) % 8 != 0:
                continue
            sk = list(sk)
            out.append({"label": "prog-%s-%s" % (".".join(sk), "data_first"), "harness": "prog", "args": {"shapes": sk, "directives": "data_first"}, "cost": 10, "validate_every": 5, "optional": True})
    names = sorted(asm.ABI) + ["x%d" % i for i in range(32)]
    for nm in names:
        out.append({"label": "reg-" + nm, "harness": "registers", "args": {"name": nm}, "cost": 1})
    for m in MNEMONIC_LINES:
        out.append({"label": "case-" + m, "harness": "case", "args": {"m": m}, "cost": 2})
    for i in range(len(NUMBER_SPELLINGS)):
        out.append({"label": "num-%d" % i, "harness": "numbers", "args": {"i": i}, "cost": 1})
    for i in range(len(BASE_PROGRAMS)):
        out.append({"label": "decor-%d" % i, "harness": "decor", "args": {"i": i}, "cost": 1})
    return out


BUDGET = {"quick": None, "thorough": 12 * 60}


def classify(job, label, model):
    if job["harness"] == "prog" and label == "assembles":
        sh = job["args"]["shapes"]
        if any(s in ("li", "la", "lw_var", "sb_var") for s in sh):
            return "C04:inline-label-on-expanding-pseudo"
    return "C04:%s:%s" % (job["label"], label)


if __name__ == "__main__":
    from symx import runner
    import checks.c04 as me

    runner.main(me)
