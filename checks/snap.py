"""Deep structural snapshots of simulations (for frame / equality VCs).  A snapshot is a nested
structure of dicts, lists, plain values and symbolic leaves that symx.compare.sym_eq reduces to
one formula."""
from __future__ import annotations

import dataclasses
import enum

from symx.ops import val


def _leaf(v):
    if v is None or isinstance(v, (bool, str, float)):
        return v
    if isinstance(v, enum.Enum):
        return v.name
    try:
        return val(v)
    except Exception:
        return repr(v)


def deep(obj, instr_index=None, depth=0):
    """generic conversion of dataclass / plain objects into nested plain structures"""
    from architecture_simulator.isa.instruction import Instruction

    if depth > 8:
        return "<depth>"
    if obj is None or isinstance(obj, (bool, str, float, int)):
        return obj
    if isinstance(obj, Instruction):
        if instr_index is not None and id(obj) in instr_index:
            return "instr#%d" % instr_index[id(obj)]
        return type(obj).__name__
    if dataclasses.is_dataclass(obj) and not isinstance(obj, type):
        d = {"__class__": type(obj).__name__}
        for f in dataclasses.fields(obj):
            if f.name in ("_start", "_execution_time_s"):
                continue
            d[f.name] = deep(getattr(obj, f.name), instr_index, depth + 1)
        return d
    if isinstance(obj, (list, tuple)):
        return [deep(x, instr_index, depth + 1) for x in obj]
    if isinstance(obj, dict):
        return {str(k): deep(v, instr_index, depth + 1) for k, v in obj.items()}
    return _leaf(obj)


def cache_snapshot(cs):
    """state of a cache memory system (data or instruction) incl. replacement state"""
    out = {"hits": cs.hits, "accesses": cs.accesses, "last_was_hit": cs.last_was_hit, "sets": []}
    for s in cs.cache.sets:
        rs = s.replacement_strategy
        rep = list(rs.lru) if hasattr(rs, "lru") else [bool(b) if isinstance(b, bool) else b for b in rs.tree_array]
        blocks = []
        for b in s.blocks:
            blocks.append(
                {
                    "valid": b.valid_bit,
                    "dirty": b.dirty_bit,
                    "tag": b.decoded_address.tag,
                    "full": b.decoded_address.full_address,
                    "values": [(_leaf(v) if not hasattr(v, "mnemonic") else repr(v)) for v in b.values],
                }
            )
        out["sets"].append({"repl": rep, "blocks": blocks})
    return out


def riscv_snapshot(c, q, qa, items=None):
    """complete observable + internal state of a RiscvSimulation built by symx.state.mk_riscv"""
    sim = c.sim
    st = sim.state
    idx = {id(ins): i for i, (a, ins) in enumerate(items)} if items else None
    pl = st.pipeline
    s = {
        "reg[q]": c.reg(q),
        "mem[qa]": c.mem_byte(qa),
        "pc": st.program_counter,
        "prev_pc": st.previous_program_counter,
        "output": st.output,
        "exit_code": st.exit_code,
        "has_started": sim.has_started,
        "metrics": deep(st.performance_metrics),
        "pipeline_registers": [deep(pr, idx) for pr in pl.pipeline_registers],
        "stalled": None if pl.stalled is None else list(pl.stalled),
        "stalled_regs": None if pl.stalled_pipeline_regs is None else [deep(pr, idx) for pr in pl.stalled_pipeline_regs],
        "done": sim.is_done(),
    }
    if hasattr(st.memory, "cache"):
        s["dcache"] = cache_snapshot(st.memory)
    if hasattr(st.instruction_memory, "cache"):
        s["icache"] = cache_snapshot(st.instruction_memory)
    return s
