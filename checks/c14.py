"""C14 Printed instruction text re-assembles to the same instruction.

For every class of the instruction map except FENCE: an instance with symbolic immediate (whole
encodable range; sentinel text, sign forked) and enumerated register numbers is printed with the
real __repr__, the text is assembled by the real load_program behind k nops, and the
instruction found at address 4k must have the same class and fields for all immediates.
Listing clause: load(listing(load(P))) reproduces the listing for the program shapes of C04."""
from __future__ import annotations

from checks import asm
from checks.asm import Text
from refs import riscv_ref as R
from symx.ops import zx, sx, val, cond

PROPERTY = "C14"
LEVEL = "model_checking"
TRUSTED = [
    "z3 5.1 QF_UFBV",
    "pyparsing's matching of a concrete line; a decimal / 0x literal stands for any literal of the same lexical class (sentinel literals; conversion base checked against the spelling)",
]
ASSUMPTIONS = [
    "immediates symbolic over the encodable range of the format (B/J offsets even; JAL absolute target = offset + own address, as the assembler creates it); csr in [0,4095], uimm/shamt in [0,31]",
    "register numbers: each operand sweeps 0..31 with the others fixed, plus the all-equal and all-x0 patterns; k in {0, 1, 7} leading nops",
    "FENCE has no operand syntax and is excluded by the property",
]
RULE = "one case = one feasible path of repr -> load_program for one (class, register pattern, k) with the immediate symbolic"
MAXTASKS = 40


def bounds(tier):
    return {"classes": "all of instruction_map except fence", "register_patterns": "sweep per operand + all-equal + x0", "leading_nops": [0, 1, 7]}


def reg_patterns(nregs, tier):
    pats = set()
    base = [5, 6, 7][:nregs]
    sweep = range(32) if tier == "thorough" else (0, 1, 2, 9, 10, 15, 16, 17, 30, 31)
    for pos in range(nregs):
        for r in sweep:
            p = list(base)
            p[pos] = r
            pats.add(tuple(p))
    for r in (0, 1, 31):
        pats.add(tuple([r] * nregs))
    return sorted(pats)


def h_roundtrip(e, m, regs, k):
    from architecture_simulator.isa.riscv.rv32i_instructions import instruction_map
    from architecture_simulator.simulation.riscv_simulation import RiscvSimulation

    T = Text(e)
    cls = instruction_map[m]
    addr = 4 * k
    I = e.int
    if m in R.R_ALU:
        ins = cls(rd=regs[0], rs1=regs[1], rs2=regs[2])
        fields = ["rd", "rs1", "rs2"]
    elif m in R.I_ALU or m in R.LOADS or m == "jalr":
        ins = cls(rd=regs[0], rs1=regs[1], imm=I("imm", -2048, 2047))
        fields = ["rd", "rs1", "imm"]
    elif m in R.I_SHIFT:
        ins = cls(rd=regs[0], rs1=regs[1], imm=I("imm", 0, 31))
        fields = ["rd", "rs1", "imm"]
    elif m in R.STORES:
        ins = cls(rs1=regs[0], rs2=regs[1], imm=I("imm", -2048, 2047))
        fields = ["rs1", "rs2", "imm"]
    elif m in R.BRANCHES:
        ins = cls(rs1=regs[0], rs2=regs[1], imm=2 * I("immh", -2048, 2047))
        fields = ["rs1", "rs2", "imm"]
    elif m in ("lui", "auipc"):
        ins = cls(rd=regs[0], imm=I("imm", -(2**19), 2**19 - 1))
        fields = ["rd", "imm"]
    elif m == "jal":
        off = 2 * I("immh", -(2**19), 2**19 - 1)
        ins = cls(rd=regs[0], imm=off, abs_addr=off + addr)
        fields = ["rd", "imm", "abs_addr"]
    elif m in ("csrrw", "csrrs", "csrrc"):
        ins = cls(rd=regs[0], csr=I("csr", 0, 4095), rs1=regs[1])
        fields = ["rd", "csr", "rs1"]
    elif m in ("csrrwi", "csrrsi", "csrrci"):
        ins = cls(rd=regs[0], csr=I("csr", 0, 4095), uimm=I("uimm", 0, 31))
        fields = ["rd", "csr", "uimm"]
    elif m in ("ecall", "ebreak"):
        ins = cls()
        fields = []
    else:
        raise KeyError(m)
    text = repr(ins)
    sim = RiscvSimulation()
    prog = "\n".join(["nop"] * k + [text])
    try:
        sim.load_program(prog)
        exc = None
    except Exception as ex:  # noqa
        exc = ex
    e.observe("exception", type(exc).__name__ if exc else None)
    e.claim("printed-text-assembles", exc is None, {"exception": repr(exc)[:160], "text": text if e.mode != "sym" else None})
    if exc is not None:
        return
    got = asm.loaded_program(sim)
    e.claim("instruction-count", len(got) == k + 1, {"n": len(got)})
    if len(got) != k + 1:
        return
    a, back = got[k]
    e.claim("same-address", a == addr)
    e.claim("same-class", type(back) is type(ins), {"got": type(back).__name__, "want": type(ins).__name__})
    e.claim("same-mnemonic", back.mnemonic == ins.mnemonic)
    for f in fields:
        e.claim_eq("same-" + f, getattr(back, f), getattr(ins, f))
    e.claim_eq("same-printed-text", repr(back), text)
    if fields:
        e.claim("canary:field", cond("==", val(getattr(back, fields[-1])), val(getattr(ins, fields[-1])) + 1))
    else:
        e.claim("canary:none", type(back) is not type(ins))
    e.observe("fields", [getattr(back, f) for f in fields])


def h_listing(e, shapes, directives):
    """re-assembling the printed listing of a loaded program reproduces the listing"""
    from checks.c04 import mk_line
    from architecture_simulator.simulation.riscv_simulation import RiscvSimulation

    T = Text(e)
    lines = [mk_line(e, s, k) for k, s in enumerate(shapes)]
    items = [("label", "target")] + lines
    data = [("data", "pad", "byte", [e.int("pad", 0, 255)]), ("data", "var", "word", [e.int("w0", 0, 2**32 - 1), e.int("w1", 0, 2**32 - 1)])]
    text = asm.render(data + items, T, directives="force", data_first=(directives != "text_first"))
    s1 = RiscvSimulation()
    s1.load_program(text)
    first = asm.loaded_program(s1)
    listing = [t for _, t in s1.state.instruction_memory.get_representation()]
    e.claim("listing-length", len(listing) == len(first))
    s2 = RiscvSimulation()
    try:
        s2.load_program("\n".join(listing))
        exc = None
    except Exception as ex:  # noqa
        exc = ex
    e.claim("listing-assembles", exc is None, {"exception": repr(exc)[:160]})
    if exc is not None:
        return
    second = asm.loaded_program(s2)
    e.claim("same-length", len(second) == len(first))
    if len(second) != len(first):
        return
    for k, ((a1, i1), (a2, i2)) in enumerate(zip(first, second)):
        e.claim("same-class-%d" % k, type(i1) is type(i2) and a1 == a2)
        m1, f1 = asm.fields_of(i1)
        m2, f2 = asm.fields_of(i2)
        for f in f1:
            e.claim_eq("same-field-%d-%s" % (k, f), f2[f], f1[f])
    listing2 = [t for _, t in s2.state.instruction_memory.get_representation()]
    e.claim_eq("same-listing", listing2, listing)
    e.observe("n", len(listing))
    e.claim("canary:listing", len(listing2) == len(listing) + 1)


def h_message(e, m, mode):
    """error-message clause: the text a run-time error message prints for the failing instruction
    is the printed form of the instruction stored at the reported address (whose re-assembly
    `roundtrip` decides), in both modes, with zero to two instructions ahead of it in the pipeline"""
    from checks import c15

    return c15.h_runtime(e, m, mode)


def h_toy_listing(e, which):
    """TOY: the instruction column of the memory table, read after the load and after every step
    of a (self-modifying) program, re-assembles row by row to the word that memory holds now."""
    from architecture_simulator.simulation.toy_simulation import ToySimulation
    from checks.asm import Text
    from checks.c06 import REUSE_TEXTS

    Tx = Text(e)
    a, b = e.int("a", 0, 0xFFFF), e.int("b", 0, 0xFFFF)
    sim = ToySimulation()
    sim.load_program(dict(REUSE_TEXTS)[which].format(a=Tx.num(a), b=Tx.hexnum(b)))
    n = 0
    while True:
        rows = sim.get_memory_table_entries()
        for r in rows:
            adr, text = r[0][0], r[2]
            if text == "-":
                continue
            fresh = ToySimulation()
            try:
                fresh.load_program("\n".join(["NOP"] * adr + [str(text)]))
                word = fresh.state.memory.read_halfword(adr)
            except Exception as ex:  # noqa
                e.claim("listed-text-assembles@%d:s%d" % (adr, n), False, {"text": str(text), "exception": repr(ex)[:100]})
                continue
            e.claim_eq("listed-text-denotes-the-word-in-memory@%d:s%d" % (adr, n), val(word), val(sim.state.memory.read_halfword(adr)), {"text": str(text)})
        if sim.is_done() or n >= 12:
            break
        sim.step()
        n += 1
    e.observe("steps", n)
    e.claim("canary:toy-listing", n == -1)


HARNESSES = {"roundtrip": h_roundtrip, "listing": h_listing, "message": h_message, "toy_listing": h_toy_listing}


def nregs(m):
    if m in R.R_ALU:
        return 3
    if m in ("lui", "auipc", "jal") or m in ("csrrwi", "csrrsi", "csrrci"):
        return 1
    if m in ("ecall", "ebreak"):
        return 0
    return 2


def jobs(tier, seed):
    names = ["add", "sub", "sll", "slt", "sltu", "xor", "srl", "sra", "or", "and", "mul", "mulh", "mulhu", "mulhsu", "div", "divu", "rem", "remu",
             "addi", "slti", "sltiu", "xori", "ori", "andi", "slli", "srli", "srai", "lb", "lh", "lw", "lbu", "lhu", "jalr", "sb", "sh", "sw",
             "beq", "bne", "blt", "bge", "bltu", "bgeu", "lui", "auipc", "jal", "csrrw", "csrrs", "csrrc", "csrrwi", "csrrsi", "csrrci", "ecall", "ebreak"]
    out = []
    for m in names:
        n = nregs(m)
        pats = reg_patterns(n, tier) if n else [()]
        if tier == "quick" and m in R.R_ALU and m not in ("add", "mulhsu"):
            pats = pats[:: 5]
        for pi, p in enumerate(pats):
            for k in (0, 1, 7):
                if tier == "quick" and (pi + k + seed) % 3 != 0 and n:
                    continue
                out.append({"label": "rt-%s-%s-k%d" % (m, ".".join(map(str, p)), k), "harness": "roundtrip", "args": {"m": m, "regs": list(p), "k": k}, "cost": 1, "validate_every": 2})
    for m in ("lb", "lh", "lw", "lbu", "lhu", "sb", "sh", "sw", "ecall"):
        for mode in ("single_stage_pipeline", "five_stage_pipeline"):
            out.append({"label": "message-%s-%s" % (m, mode[:4]), "harness": "message", "args": {"m": m, "mode": mode}, "cost": 3})
    from checks.c04 import SHAPES
    import itertools

    for i, sk in enumerate(itertools.product(SHAPES, repeat=2)):
        if (i + seed) % (6 if tier == "quick" else 1) != 0:
            continue
        out.append({"label": "listing-%s" % ".".join(sk), "harness": "listing", "args": {"shapes": list(sk), "directives": "data_first" if i % 2 else "text_first"}, "cost": 3, "validate_every": 2})
    from checks.c06 import REUSE_TEXTS

    for nm, _ in REUSE_TEXTS:
        out.append({"label": "toy-listing-%s" % nm, "harness": "toy_listing", "args": {"which": nm}, "cost": 5, "validate_every": 1})
    return out


if __name__ == "__main__":
    from symx import runner
    import checks.c14 as me

    runner.main(me)
