"""C16 Inspection is pure: read-only queries never change later behaviour.

On the states reached after the steps of bounded symbolic programs (both pipeline modes, with and
without caches) and of TOY programs, every public zero-argument get_*/is_*/has_* method (found by
introspection) is called twice: the deep snapshot of the simulation must be unchanged and the
second result must equal the first.  Purity of each call on every state implies that any
interleaving/repetition of inspection calls leaves all later behaviour unchanged (step is a
function of the state)."""
from __future__ import annotations

import inspect

from checks import progs
from checks.progs import ALPHABET, REDUCED, skeletons
from checks.snap import riscv_snapshot, deep
from symx.ops import cond, land, val, zx, sx

PROPERTY = "C16"
LEVEL = "model_checking"
TRUSTED = ["z3 5.1 QF_UFBV", "fixedint model (validated each run)", "CPython renderers (placeholders compared as (renderer, value))"]
ASSUMPTIONS = [
    "programs and bounds of C02 (K = 2L+2); states inspected per path: the initial state, the state after the first step, every 3rd state (quick; thorough: every state for one-instruction programs, every 2nd for L=2) and the final state",
    "with a symbolic (total) data memory the data-memory table getter cannot enumerate keys; it is exercised in the 'small' harness (initially empty real dict memory, store/load addresses constrained to 8 bytes at the start of the data segment)",
    "register numbers of the programs are pinned to a dependency chain (x(10+i) <- x(9+i), x9); immediates, register and memory contents stay symbolic",
    "initial register values are constrained to [0, 2^31) (the register table branches on the sign of each of the 32 registers; the formatter is C17's subject); computed values are unconstrained",
    "timer fields excluded from snapshots; get_performance_metrics_str is deterministic while the timer is not running (stepping)",
]
RULE = "one case = one feasible path of a bounded symbolic program with all getters called twice after each step"
MAXTASKS = 20

SKIP_WITH_SYMBOLIC_MEMORY = {"get_data_memory_entries"}


def bounds(tier):
    return {"programs": "all one-instruction programs, a VERIF_SEED-rotated eighth of the light L=2 skeletons" if tier == "quick" else "all one-instruction programs, all L=2 skeletons (best effort under the wall budget)", "cache_configs": ["none", "wb/lru 2 sets x 1 word x 2 ways + icache", "wt/plru 2 sets x 2 words x 2 ways + icache"], "toy_steps": 2}


def getters(sim):
    out = []
    for name, m in inspect.getmembers(sim, predicate=inspect.ismethod):
        if not (name.startswith("get_") or name.startswith("is_") or name.startswith("has_")):
            continue
        sig = inspect.signature(m)
        if any(p.default is inspect.Parameter.empty and p.kind in (p.POSITIONAL_ONLY, p.POSITIONAL_OR_KEYWORD) for p in sig.parameters.values()):
            continue
        out.append(name)
    return sorted(out)


def plainify(o, depth=0):
    if depth > 10:
        return "<depth>"
    if o is None or isinstance(o, (bool, str, float, int)):
        return o
    if isinstance(o, (list, tuple)):
        return [plainify(x, depth + 1) for x in o]
    if isinstance(o, dict):
        return {str(k): plainify(v, depth + 1) for k, v in o.items()}
    try:
        return val(o)
    except Exception:
        pass
    if hasattr(o, "__dict__"):
        return {"__class__": type(o).__name__, **{k: plainify(v, depth + 1) for k, v in vars(o).items() if not k.startswith("_start") and k != "_execution_time_s"}}
    return repr(o)


def call(sim, name):
    try:
        return ("ok", plainify(getattr(sim, name)()))
    except AssertionError:
        return ("assert", None)


def claim_all(e, label, acc):
    """one VC for the conjunction; the individual claims are only tried when it fails"""
    from symx.compare import sym_eq, _and

    if e.mode != "sym":
        ok = True
        for n_, a, b in acc:
            ok = e.claim_eq(n_, a, b) and ok
        e.claim(label, ok)  # the conjunction under its own label (confirms a symbolic counterexample of it)
        return ok
    conds = [(n_, sym_eq(a, b)) for n_, a, b in acc]
    if e.claim(label, _and([c for _, c in conds])):
        return True
    for n_, c in conds:
        e.claim(n_, c)
    return False


def inspect_all(e, c, q, qa, items, names, tag, symbolic_memory=True):
    sim = c.sim
    S0 = riscv_snapshot(c, q, qa, items)
    acc = []
    for name in names:
        if symbolic_memory and name in SKIP_WITH_SYMBOLIC_MEMORY:
            continue
        r1 = call(sim, name)
        r2 = call(sim, name)
        acc.append(("%s:repeatable:%s" % (tag, name), r2, r1))
    S1 = riscv_snapshot(c, q, qa, items)
    for k in S0:
        acc.append(("%s:state-unchanged:%s" % (tag, k), S1[k], S0[k]))
    claim_all(e, "%s:pure" % tag, acc)
    shared_tables_untouched(e, tag)
    return S1


def compare_with_uninspected(e, c, u, names, tag, q=None, qa=None, items=None, symbolic_memory=True):
    """every inspection result (and the state) of the inspected run equals that of the twin run
    on which no inspection function was ever called before"""
    acc = []
    for name in names:
        if symbolic_memory and name in SKIP_WITH_SYMBOLIC_MEMORY:
            continue
        acc.append(("%s:inspected-run==uninspected-run:%s" % (tag, name), call(c.sim, name), call(u.sim, name)))
    if items is not None:
        SI, SU = riscv_snapshot(c, q, qa, items), riscv_snapshot(u, q, qa, items)
        for k in SI:
            acc.append(("%s:inspected-run==uninspected-run:state:%s" % (tag, k), SI[k], SU[k]))
    claim_all(e, "%s:inspected-run==uninspected-run" % tag, acc)


def shared_tables_untouched(e, tag):
    from symx import globalsnap

    ch = globalsnap.changed()
    e.claim("%s:shared-tables-untouched" % tag, not ch, {"changed": ch[:5]})


def mk_caches(cfg):
    from symx.state import cache_options

    if cfg is None:
        return None, None
    kind, repl, ib, bb, ways = cfg
    return cache_options(True, ib, bb, ways, kind, repl, 3), cache_options(True, 1, 0, 2, "wb", repl, 2)


def h_inspect(e, mnems, mode, cfg=None, stride=3):
    from symx.state import mk_riscv, place_instructions
    from symx.core import PathCut
    from architecture_simulator.simulation.runtime_errors import InstructionExecutionException

    K = progs.k_for(len(mnems))
    if any(m == "ecall" for m in mnems) and e.mode == "sym":
        e.site_bounds["process_ecall"] = progs.ECALL_SITE_BOUND
    items, fields = progs.build_program(e, mnems)
    # register numbers are pinned (a dependency chain: instruction i writes x(10+i) and reads
    # x(9+i), x9): with symbolic indices the 32-row register table forks on the sign of every
    # row for every possible destination
    for i, f in enumerate(fields):
        for name, v in (("rd", 10 + i), ("rs1", 9 + i), ("rs2", 9)):
            if name in f:
                e.assume(cond("==", f[name], v))
    dc, ic = mk_caches(cfg)
    c = mk_riscv(e, mode=mode, dcache=dc, icache=ic)
    place_instructions(e, c, items)
    # the same run without any inspection call (same symbolic initial state), stepped in lock-step
    dc2, ic2 = mk_caches(cfg)
    u = mk_riscv(e, mode=mode, dcache=dc2, icache=ic2)
    place_instructions(e, u, items)
    # the register table formats all 32 registers and branches on the sign of each: keep the
    # initial values non-negative as 32-bit signed numbers (the formatter itself is C17's subject)
    for i in range(1, 32):
        e.assume(cond("<", c.regs0.get(i), 2**31))
    names = getters(c.sim)
    e.claim("getter-discovery", len(names) >= 12 and "get_register_entries" in names, {"names": names})
    q = e.int("q", 0, 31)
    qa = e.int("qa", 0, 2**32 - 1)
    limit = K if mode.startswith("single") else progs.cycle_bound(K)
    n = 0
    inspect_all(e, c, q, qa, items, names, "s0")
    while not c.sim.is_done():
        if n >= limit:
            raise PathCut("more than %d steps" % limit)
        try:
            c.sim.step()
        except InstructionExecutionException:
            break
        finally:
            try:
                u.sim.step()
            except InstructionExecutionException:
                pass
        n += 1
        if n == 1 or n % stride == 0:
            inspect_all(e, c, q, qa, items, names, "s%d" % n)
    inspect_all(e, c, q, qa, items, names, "final")
    compare_with_uninspected(e, c, u, names, "final", q, qa, items)
    e.observe("steps", n)
    e.observe("pc", c.sim.state.program_counter)
    e.claim("canary:pure", c.sim.state.performance_metrics.cycles == -1)


def h_inspect_small(e, mnems, mode, cfg=None):
    """initially empty real-dict data memory; store/load addresses within 8 bytes: the memory
    table getter runs on real keys"""
    from symx.state import mk_riscv, place_instructions
    from architecture_simulator.simulation.runtime_errors import InstructionExecutionException

    items, fields = progs.build_program(e, mnems)

    def build():
        dc, ic = mk_caches(cfg)
        c_ = mk_riscv(e, mode=mode, dcache=dc, icache=ic, mem="empty")
        place_instructions(e, c_, items)
        return c_

    c = build()
    reg0 = c.regs0.get
    for i in range(1, 32):
        e.assume(cond("<", c.regs0.get(i), 2**31))
    for m, f in zip(mnems, fields):
        if m == "ecall":
            # print-string service on a string inside the window: its byte reads are uncounted
            # accesses that fill / evict like any other read
            e.assume(cond("==", reg0(17), 4))
            e.assume(land(cond(">=", reg0(10), 2**14), cond("<=", reg0(10), 2**14 + 7)))
            continue
        a = zx(reg0(f["rs1"]) + f["imm"], 32)
        e.assume(land(cond(">=", a, 2**14), cond("<=", a, 2**14 + (15 if cfg and cfg[4] >= 4 else 7))))
        if len(mnems) >= 3:
            e.assume(cond("==", a & 3, 0))  # longer programs: the two word addresses only
        e.assume(cond("!=", f.get("rd", 1), f["rs1"]) if "rd" in f else True)
        if "ecall" in mnems and "rd" in f:
            e.assume(land(cond("!=", f["rd"], 10), cond("!=", f["rd"], 17)))
    # base registers keep their initial values: no load writes a register used as a base later
    for i_, fi in enumerate(fields):
        if "rd" not in fi:
            continue
        for fj in fields[i_ + 1:]:
            if "rs1" in fj:
                e.assume(cond("!=", fi["rd"], fj["rs1"]))
    names = getters(c.sim)
    lower = c.lower_mem()

    from checks.snap import cache_snapshot

    def memsnap(c_=None):
        c_ = c_ or c
        lower_ = c_.lower_mem()
        d = {"mem": {k: val(v) for k, v in sorted(lower_.memory_file.items())}, "keys": list(lower_.memory_file.keys())}
        st_ = c_.sim.state
        if hasattr(st_.memory, "cache"):
            d["dcache"] = cache_snapshot(st_.memory)
        if hasattr(st_.instruction_memory, "cache"):
            d["icache"] = cache_snapshot(st_.instruction_memory)
        d["regs"] = [val(r) for r in st_.register_file.registers]
        d["metrics"] = deep(st_.performance_metrics)
        d["pc"] = st_.program_counter
        d["output"] = st_.output
        return d

    n = 0
    while not c.sim.is_done() and n < 60:
        try:
            c.sim.step()
        except InstructionExecutionException:
            break
        n += 1
        if True:
            M0 = memsnap()
            acc = []
            res = {}
            for name in names:
                r1 = call(c.sim, name)
                r2 = call(c.sim, name)
                res[name] = r2
                acc.append(("s%d:repeatable:%s" % (n, name), r2, r1))
            M1 = memsnap()
            for k_ in M0:
                acc.append(("s%d:state-unchanged:%s" % (n, k_), M1[k_], M0[k_]))
            # a fresh twin stepped n times without any inspection call: same results, same state
            u = build()
            for _ in range(n):
                try:
                    u.sim.step()
                except InstructionExecutionException:
                    break
            MU = memsnap(u)
            for name in names:
                acc.append(("s%d:inspected-run==uninspected-run:%s" % (n, name), res[name], call(u.sim, name)))
            for k_ in M1:
                acc.append(("s%d:inspected-run==uninspected-run:state:%s" % (n, k_), M1[k_], MU[k_]))
            claim_all(e, "s%d:pure" % n, acc)
            shared_tables_untouched(e, "s%d" % n)
    rows = c.sim.get_data_memory_entries()
    e.observe("rows", [r[0][0] for r in rows])
    e.claim("table-lists-written-words", all(any(k // 4 * 4 == r[0][0] for r in rows) for k in lower.memory_file.keys()))
    e.claim("canary:pure", n == -1)


SPECIAL_TEXTS = {
    # instructions outside the C01 alphabet that the assembler accepts and the simulator executes
    # (CSR accesses: "not visualised" - the single-cycle visualisation getter takes its early-return path)
    "csr": "addi x5, x0, 1\ncsrrw x6, 0x001, x5\naddi x7, x5, 2\ncsrrsi x8, 0x001, 3\nadd x9, x8, x6\ncsrrc x10, 0x002, x5\ncsrrwi x11, 0x7, 9\ncsrrci x12, 0x001, 1",
    "csr-first": "csrrs x6, 0x001, x0\nsub x7, x6, x5\ncsrrw x0, 0x001, x7",
    # ecalls that wait in the execute stage for older instructions (five-stage), then an exit
    "ecalls": "addi x17, x0, 1\naddi x10, x0, 7\necall\nsw x10, 0(x5)\necall\naddi x17, x0, 93\naddi x10, x0, 3\necall\naddi x6, x0, 1",
    "mixed": "lui x5, 4\nsw x6, 0(x5)\ncsrrw x7, 0x001, x6\nlw x8, 0(x5)\nbeq x8, x6, 8\naddi x9, x0, 1\ncsrrci x10, 0x001, 0\nsrai x11, x8, 3",
}


def h_inspect_text(e, which, mode, cfg=None):
    """a fixed instruction sequence (assembled by the real parser) on symbolic initial registers
    and memory: all getters after every step, compared with a fresh never-inspected twin"""
    from symx.state import mk_riscv, place_instructions
    from architecture_simulator.simulation.riscv_simulation import RiscvSimulation
    from architecture_simulator.simulation.runtime_errors import InstructionExecutionException

    tmp = RiscvSimulation()
    tmp.load_program(SPECIAL_TEXTS[which])
    items = sorted(tmp.state.instruction_memory.instructions.items())

    def build():
        dc, ic = mk_caches(cfg)
        c_ = mk_riscv(e, mode=mode, dcache=dc, icache=ic)
        place_instructions(e, c_, items)
        return c_

    c = build()
    for i in range(1, 32):
        e.assume(cond("<", c.regs0.get(i), 2**31))
    names = getters(c.sim)
    q = e.int("q", 0, 31)
    qa = e.int("qa", 0, 2**32 - 1)
    n = 0
    inspect_all(e, c, q, qa, items, names, "s0")
    while not c.sim.is_done() and n < 40:
        try:
            c.sim.step()
        except InstructionExecutionException:
            break
        n += 1
        inspect_all(e, c, q, qa, items, names, "s%d" % n)
        u = build()
        try:
            for _ in range(n):
                u.sim.step()
        except InstructionExecutionException:
            break
        compare_with_uninspected(e, c, u, names, "s%d" % n, q, qa, items)
    e.observe("steps", n)
    e.claim("canary:pure", n == -1)


def h_inspect_toy(e, steps=2):
    from symx.state import ToyInputs, mk_toy
    from checks.c20 import snapshot as toy_snapshot

    inp = ToyInputs(e)
    a, sa = mk_toy(e, inp)
    u, su = mk_toy(e, inp)  # never inspected before the end
    q = e.int("q", 0, 4095)
    names = [n for n in getters(a) if n != "get_memory_table_entries"]
    e.claim("getter-discovery", "get_register_representations" in names and "get_toy_svg_update_values" in names, {"names": names})
    for n in range(steps + 1):
        S0 = toy_snapshot(e, a, sa, q, False)
        for name in names:
            r1 = call(a, name)
            r2 = call(a, name)
            e.claim_eq("t%d:repeatable:%s" % (n, name), r2, r1)
        S1 = toy_snapshot(e, a, sa, q, False)
        for k in S0:
            e.claim_eq("t%d:state-unchanged:%s" % (n, k), S1[k], S0[k])
        shared_tables_untouched(e, "t%d" % n)
        if a.is_done():
            break
        a.single_step()
        u.single_step()
    for name in names:
        e.claim_eq("final:inspected-run==uninspected-run:%s" % name, call(a, name), call(u, name))
    SA, SU = toy_snapshot(e, a, sa, q, False), toy_snapshot(e, u, su, q, False)
    for k in SA:
        e.claim_eq("final:inspected-run==uninspected-run:state:%s" % k, SA[k], SU[k])
    e.observe("accu", a.state.accu)
    e.claim("canary:pure", a.next_cycle == 7)


def h_inspect_toy_table(e, opcode):
    """small TOY memory (real dict): memory table getter and register representations"""
    from symx.state import ToyInputs, mk_toy
    from checks.c20 import snapshot as toy_snapshot

    inp = ToyInputs(e, mem_size=2, ir_opcode=opcode)
    a, sa = mk_toy(e, inp)
    u, su = mk_toy(e, inp)  # never inspected before the end
    names = getters(a)
    for n in range(3):
        S0 = toy_snapshot(e, a, sa, 0, True)
        for name in names:
            r1 = call(a, name)
            r2 = call(a, name)
            e.claim_eq("t%d:repeatable:%s" % (n, name), r2, r1)
        S1 = toy_snapshot(e, a, sa, 0, True)
        for k in S0:
            e.claim_eq("t%d:state-unchanged:%s" % (n, k), S1[k], S0[k])
        shared_tables_untouched(e, "t%d" % n)
        if a.is_done():
            break
        try:
            a.single_step()
        except Exception:  # address outside the small memory
            e.observe("accu", a.state.accu)
            return "address outside the small memory"
        u.single_step()
    for name in names:
        e.claim_eq("final:inspected-run==uninspected-run:%s" % name, call(a, name), call(u, name))
    e.observe("accu", a.state.accu)
    e.claim("canary:pure", a.next_cycle == 7)


HARNESSES = {"inspect": h_inspect, "text": h_inspect_text, "small": h_inspect_small, "toy": h_inspect_toy, "toy_table": h_inspect_toy_table}
MODES = ["single_stage_pipeline", "five_stage_pipeline"]
CFGS = [None, ("wb", "lru", 1, 0, 2), ("wt", "plru", 1, 1, 2)]
# the small harness keeps all addresses within two words: single-set caches make them compete
SMALL_CFGS = [None, ("wb", "lru", 0, 0, 2), ("wt", "plru", 0, 0, 2), ("wb", "lru", 1, 0, 2)]
# direct-mapped single block: every access to the other word evicts (write-back: writes back)
EVICT_CFGS = [("wb", "lru", 0, 0, 1), ("wt", "lru", 0, 0, 1)]
# four ways, one set, four candidate words: partially filled sets whose valid ways are not a prefix
WIDE_CFGS = [("wb", "plru", 0, 0, 4), ("wt", "lru", 0, 0, 4)]


def jobs(tier, seed):
    from checks import c02
    from checks.c01 import MNEMONICS

    out = []
    common = {"timeout_ms": 10000, "cut_on_undecided": True}
    quick = tier == "quick"
    for mode in MODES:
        ms = "1" if mode.startswith("single") else "5"
        for m in MNEMONICS:
            out.append(dict(common, label="insp%s:%s" % (ms, m), harness="inspect", args={"mnems": [m], "mode": mode, "stride": 3 if quick else 1}, cost=5 + 20 * (m == "ecall"), validate_every=2))
        for sk in skeletons(ALPHABET, 2):
            if c02.heavy(sk, strict=True):
                if quick:
                    continue
            if quick and (hash_(sk) + seed) % 8 != 0:
                continue
            out.append(dict(common, label="insp%s:%s" % (ms, ",".join(sk)), harness="inspect", args={"mnems": sk, "mode": mode, "stride": 3 if quick else 2}, cost=15, validate_every=4, optional=not quick))
        for ci, cfg in enumerate(CFGS[1:], 1):
            for sk in ((["lw"], ["sw"], ["sb"], ["lhu"]) if quick else (["lw"], ["sw"], ["sb"], ["lhu"], ["sb", "lw"], ["lw", "sw"], ["add", "lw"])):
                out.append(dict(common, label="insp%s-c%d:%s" % (ms, ci, ",".join(sk)), harness="inspect", args={"mnems": sk, "mode": mode, "cfg": cfg, "stride": 3}, cost=25, validate_every=4))
        for ci, cfg in enumerate(SMALL_CFGS[:3] if quick else SMALL_CFGS):
            for sk in ((["sw"], ["sb", "lw"], ["sw", "sw", "lw", "lw"]) if quick else (["sw"], ["sb", "sw"], ["sw", "lw"], ["sw", "sw"], ["sw", "sw", "lw", "lw"], ["sw", "lw", "sw", "lw"], ["sh", "sb", "lbu"])):
                out.append(dict(common, label="small%s-c%d:%s" % (ms, ci, ",".join(sk)), harness="small", args={"mnems": sk, "mode": mode, "cfg": cfg}, cost=20, validate_every=2))
    for mode in MODES:
        ms = "1" if mode.startswith("single") else "5"
        for ci, cfg in enumerate(EVICT_CFGS):
            for sk in ((["sw", "ecall"], ["sw", "lw", "sw"]) if quick else (["sw", "ecall"], ["sw", "ecall", "lw"], ["sw", "lw", "sw"], ["sb", "ecall", "sw"], ["sw", "sw", "lw"])):
                out.append(dict(common, label="evict%s-c%d:%s" % (ms, ci, ",".join(sk)), harness="small", args={"mnems": sk, "mode": mode, "cfg": cfg}, cost=25, validate_every=2))
    for mode in MODES:
        ms = "1" if mode.startswith("single") else "5"
        for ci, cfg in enumerate(WIDE_CFGS):
            for sk in ((["lw", "lw"],) if quick else (["lw", "lw"], ["sw", "lw"], ["lw", "lw", "lw"])):
                out.append(dict(common, label="wide%s-c%d:%s" % (ms, ci, ",".join(sk)), harness="small", args={"mnems": sk, "mode": mode, "cfg": cfg}, cost=60, validate_every=4))
    for mode in MODES:
        for which in SPECIAL_TEXTS:
            out.append(dict(common, label="text%s:%s" % ("1" if mode.startswith("single") else "5", which), harness="text", args={"which": which, "mode": mode, "cfg": CFGS[1] if which == "mixed" else None}, cost=30, validate_every=2))
    out.append(dict(common, label="toy", harness="toy", args={"steps": 2}, cost=100, validate_every=10))
    for k in range(13):
        out.append(dict(common, label="toy-table-op%d" % k, harness="toy_table", args={"opcode": k}, cost=10, validate_every=3))
    return out


def hash_(sk):
    return sum((i + 1) * ALPHABET.index(m) for i, m in enumerate(sk))


BUDGET = {"quick": None, "thorough": 12 * 60}

if __name__ == "__main__":
    from symx import runner
    import checks.c16 as me

    runner.main(me)
