"""C15 Errors are well-typed: parser errors carry the line, run-time errors the address.

(L-INT) For every int(...) conversion in the two parsers (found by an AST scan of /repo's current
source) the language of literals the live pyparsing grammar can deliver to it is compared, as a
z3 regular-expression query with no length bound, with the language the conversion accepts
(CPython's integer-literal grammar for that base, 4300-digit limit included).  Where z3 returns a
witness literal outside the accepted language, the witness is pushed through the real
load_program in every line shape that feeds that conversion: the only admissible outcome is a
ParserException with the number of an existing line.
(shapes) Grammar-derived programs with injected lexical and structural faults are loaded by the real
parsers: only ParserException (with a valid 1-based line number) or the dedicated memory
size/address errors may leave load_program.
(run time) every faulting instruction class is executed symbolically in both pipeline modes: the
error is an InstructionExecutionException with the address and printed form of the instruction."""
from __future__ import annotations

import ast
import os

PROPERTY = "C15"
LEVEL = "model_checking"
TRUSTED = [
    "z3 5.1 (sequence/regex theory for the lexical lemmas; QF_UFBV for the run-time faults)",
    "the translation of pyparsing Word/Literal/Combine/And/Opt/MatchFirst elements into z3 regular expressions (regenerated from the live grammar objects on every run; an unknown element kind makes the lemma inconclusive)",
    "CPython's documented integer-literal grammar as the accepted language of int(s, base)",
]
ASSUMPTIONS = [
    "termination of loading is not addressed (pyparsing on unconstrained text is not encoded)",
    "fault injection enumerates line shapes and structural faults listed in this file; arbitrary token soups are outside",
    "run-time clause: single instruction from an arbitrary state (C01 harness) and the bounded programs of C02 assert address and printed form on every fault path",
]
RULE = "one case = one conversion site x witness literal x line shape (lemma), one faulty text (shapes), or one feasible faulting path (run time)"
NO_SELFCHECK = False


def bounds(tier):
    return {"literal_length": "unbounded (regex inclusion)", "witnesses_per_site": 4, "fault_texts": "see FAULT_TEXTS", "runtime": "all load/store classes + ecall, both modes"}


# ---- grammar -> z3 regex ----------------------------------------------------------------------------


def to_re(el):
    import pyparsing as pp
    import z3

    if isinstance(el, (pp.Combine, pp.Group, pp.Suppress)):
        return to_re(el.expr)
    if isinstance(el, pp.And):
        parts = [to_re(x) for x in el.exprs]
        return parts[0] if len(parts) == 1 else z3.Concat(*parts)
    if isinstance(el, (pp.MatchFirst, pp.Or)):
        parts = [to_re(x) for x in el.exprs]
        return parts[0] if len(parts) == 1 else z3.Union(*parts)
    if isinstance(el, pp.Opt):
        return z3.Option(to_re(el.expr))
    if isinstance(el, pp.Word):
        init = "".join(sorted(el.initChars))
        body = "".join(sorted(el.bodyChars))
        if el.minLen != 1:
            raise NotImplementedError("Word with a minimum length")
        cls = lambda cs: z3.Union(*[z3.Re(c) for c in cs]) if len(cs) > 1 else z3.Re(cs)
        # a maximum length is over-approximated by * (sound for inclusion); max_len() accounts for it
        return z3.Concat(cls(init), z3.Star(cls(body)))
    if isinstance(el, pp.CaselessLiteral):
        raise NotImplementedError("CaselessLiteral in a numeric token")
    if isinstance(el, pp.Literal):
        return z3.Re(el.match)
    raise NotImplementedError(type(el).__name__)


def max_len(el):
    """maximum length of a token the element can deliver (None = unbounded)"""
    import pyparsing as pp

    if isinstance(el, (pp.Combine, pp.Group, pp.Suppress)):
        return max_len(el.expr)
    if isinstance(el, pp.And):
        ls = [max_len(x) for x in el.exprs]
        return None if any(l is None for l in ls) else sum(ls)
    if isinstance(el, (pp.MatchFirst, pp.Or)):
        ls = [max_len(x) for x in el.exprs]
        return None if any(l is None for l in ls) else max(ls)
    if isinstance(el, pp.Opt):
        return max_len(el.expr)
    if isinstance(el, pp.Word):
        return None if el.maxLen in (0, 9223372036854775807) else el.maxLen
    if isinstance(el, pp.Literal):
        return len(el.match)
    raise NotImplementedError(type(el).__name__)


def decimal_part(el):
    """sub-elements that can deliver a *decimal* digit string of unbounded length"""
    import pyparsing as pp

    if isinstance(el, (pp.Combine, pp.Group, pp.Suppress, pp.Opt)):
        return decimal_part(el.expr)
    if isinstance(el, pp.And):
        # a prefixed alternative (0x.., 0b..) is not decimal
        lits = [x for x in el.exprs if isinstance(x, pp.Literal) and x.match in ("0x", "0b")]
        if lits:
            return []
        out = []
        for x in el.exprs:
            out += decimal_part(x)
        return out
    if isinstance(el, (pp.MatchFirst, pp.Or)):
        out = []
        for x in el.exprs:
            out += decimal_part(x)
        return out
    if isinstance(el, pp.Word):
        return [el] if set(el.bodyChars) <= set("0123456789") and set(el.bodyChars) - set("0") else []
    return []


def accepted_language(base):
    """CPython int(s, base) for digit strings without whitespace/underscores; the digit-count limit
    is handled separately"""
    import z3

    d = lambda cs: z3.Union(*[z3.Re(c) for c in cs])
    dec = z3.Union(z3.Plus(z3.Re("0")), z3.Concat(d("123456789"), z3.Star(d("0123456789"))))
    hexd = d("0123456789abcdefABCDEF")
    if base == 0:
        body = z3.Union(z3.Concat(z3.Union(z3.Re("0x"), z3.Re("0X")), z3.Plus(hexd)), z3.Concat(z3.Union(z3.Re("0b"), z3.Re("0B")), z3.Plus(d("01"))), z3.Concat(z3.Union(z3.Re("0o"), z3.Re("0O")), z3.Plus(d("01234567"))), dec)
    elif base == 10:
        body = z3.Plus(d("0123456789"))
    elif base == 16:
        body = z3.Concat(z3.Option(z3.Union(z3.Re("0x"), z3.Re("0X"))), z3.Plus(hexd))
    else:
        raise NotImplementedError(base)
    return z3.Concat(z3.Option(z3.Union(z3.Re("-"), z3.Re("+"))), body)


def decimal_language():
    import z3

    d = lambda cs: z3.Union(*[z3.Re(c) for c in cs])
    return z3.Concat(z3.Option(z3.Re("-")), z3.Plus(d("0123456789")))


# conversion sites: source text of the int() argument -> (grammar element getter, base, line templates)
def site_table():
    from architecture_simulator.isa.riscv.riscv_parser import RiscvParser as P
    from architecture_simulator.isa.toy.toy_parser import ToyParser as T
    import pyparsing as pp

    word_nums = P._pattern_zero_initialization.expr.exprs[-1] if hasattr(P._pattern_zero_initialization, "expr") else None
    idx_digits = pp.Word(pp.nums)
    hex_tail = pp.Word(pp.hexnums)
    R = "riscv"
    return {
        ("riscv_parser", "val"): (P._pattern_imm, 0, [(R, ".data\nv: .byte {}\n.text\nnop"), (R, ".data\nv: .half 1, {}\n.text\nnop"), (R, "nop\n.data\nv: .word {}")]),
        ("riscv_parser", 'line_parsed.get("value")'): (word_nums, 10, [(R, ".data\nz: .zero {}\n.text\nnop")]),
        ("riscv_parser", "line_parsed.imm"): (P._pattern_imm, 0, [(R, "addi x1, x0, {}"), (R, "lw x1, {}(x2)"), (R, "sw x1, x2, {}"), (R, "lui x1, {}"), (R, "nop\nli x1, {}"), (R, "slli x1, x2, {}"), (R, "jalr x1, x2, {}")]),
        ("riscv_parser", "line_parsed.variable.index"): (idx_digits, 10, [(R, ".data\nv: .word 1\n.text\nla x1, v[{}]"), (R, ".data\nv: .word 1\n.text\nlw x1, v[{}]"), (R, ".data\nv: .word 1\n.text\nsb x1, v[{}], x2")]),
        ("riscv_parser", "line_parsed.csr"): (P._pattern_imm, 0, [(R, "csrrw x1, {}, x2"), (R, "csrrwi x1, {}, 3")]),
        ("riscv_parser", "line_parsed.uimm"): (P._pattern_imm, 0, [(R, "csrrwi x1, 0x300, {}")]),
        ("riscv_parser", "instruction_parsed.imm"): (P._pattern_imm, 0, [(R, "beq x1, x2, {}"), (R, "nop\njal x1, {}")]),
        ("riscv_parser", "instruction_parsed.offset"): (P._pattern_offset.expr.exprs[-1], 0, [(R, "a: nop\nbeq x1, x2, a+{}"), (R, "a: nop\njal x1, a+{}")]),
        ("riscv_parser", "parsed_register[0][1]"): (P._pattern_register.exprs[1].expr.exprs[1], 10, []),
        ("toy_parser", "address[2:]"): (hex_tail, 16, [("toy", "LDA 0x{}"), ("toy", ".data\nv: .word 0x{}\n.text\nNOP")]),
        ("toy_parser", "address"): (pp.Word(pp.nums), 10, [("toy", "LDA {}"), ("toy", "NOP\n.data\nv: .word 1, {}")]),
    }


# int() calls whose argument is not a literal token (objects with __int__)
NON_LITERAL_SITES = {("toy_parser", "instr"), ("toy_parser", "instructions[0]")}


def find_int_sites():
    """every int(<arg>...) call in the two parser modules of /repo's working tree"""
    repo = os.environ.get("VERIF_REPO", "/repo")
    out = []
    for mod, rel in (("riscv_parser", "architecture_simulator/isa/riscv/riscv_parser.py"), ("toy_parser", "architecture_simulator/isa/toy/toy_parser.py"), ("parser", "architecture_simulator/isa/parser.py")):
        src = open(os.path.join(repo, rel)).read()
        tree = ast.parse(src)
        for node in ast.walk(tree):
            if isinstance(node, ast.Call) and isinstance(node.func, ast.Name) and node.func.id == "int" and node.args:
                arg = ast.get_source_segment(src, node.args[0])
                base = None
                for kw in node.keywords:
                    if kw.arg == "base":
                        base = ast.literal_eval(kw.value)
                if len(node.args) > 1:
                    base = ast.literal_eval(node.args[1])
                out.append((mod, arg, base, node.lineno))
    return out


def h_lint(e, mod, arg):
    """lexical lemma for one conversion site"""
    import z3

    sites = [s for s in find_int_sites() if s[0] == mod and s[1] == arg]
    table = site_table()
    e.claim("site-known", (mod, arg) in table, {"site": [mod, arg]})
    if (mod, arg) not in table:
        return
    el, base_expected, templates = table[(mod, arg)]
    conv_sites = [s for s in sites if not s[1].startswith("fixedint")]
    bases = {(s[2] if s[2] is not None else 10) for s in conv_sites}
    e.observe("sites", [[s[3], s[2]] for s in sites])
    witnesses = []
    try:
        tok = to_re(el) if not hasattr(el, "pattern") else None
    except NotImplementedError as ex:
        tok = None
    if tok is None:
        # oneOf(...) compiles to a Regex: enumerate its finite alternatives
        import re as _re

        alts = sorted(set(_re.findall(r"\d+", getattr(el, "pattern", ""))))
        bad = []
        for a in alts:
            try:
                int(a, base_expected)
            except ValueError:
                bad.append(a)
        e.claim("finite-token-set-accepted", not bad and len(alts) == 32, {"bad": bad, "n": len(alts)})
        return
    for base in sorted(bases):
        acc = accepted_language(base)
        s = z3.String("s")
        slv = z3.Solver()
        slv.set("timeout", 20000)
        slv.add(z3.InRe(s, tok))
        slv.add(z3.Not(z3.InRe(s, acc)))
        n = 0
        while n < 4:
            r = slv.check()
            if r == z3.unsat:
                break
            e.claim("regex-query-decided-base%s" % base, r == z3.sat, {"result": str(r)})
            if r != z3.sat:
                return
            w = slv.model()[s].as_string()
            witnesses.append(w)
            slv.add(s != z3.StringVal(w))
            slv.add(z3.Length(s) != len(w))
            n += 1
        # digit-count limit of non-power-of-two bases: can a decimal literal with more than 4300
        # digits be delivered?  (i) structurally bounded Words cannot; (ii) otherwise z3 decides the
        # membership of the canonical long literal in the token language
        if base in (0, 10):
            unbounded = [w_ for w_ in decimal_part(el) if max_len(w_) is None or max_len(w_) > 4300]
            e.notes["unbounded_decimal_words"] = len(unbounded)
            if unbounded:
                long = "9" * 4301
                slv2 = z3.Solver()
                slv2.set("timeout", 60000)
                slv2.add(z3.InRe(z3.StringVal(long), tok))
                r2 = slv2.check()
                e.claim("length-query-decided-base%s" % base, r2 in (z3.sat, z3.unsat), {"result": str(r2)})
                if r2 == z3.sat:
                    witnesses.append(long)
    e.observe("witnesses", [w[:20] + ("..." if len(w) > 20 else "") for w in witnesses])
    e.notes["witnesses"] = len(witnesses)
    # every witness through the real load_program in every line shape feeding this conversion
    from architecture_simulator.simulation.riscv_simulation import RiscvSimulation
    from architecture_simulator.simulation.toy_simulation import ToySimulation
    from architecture_simulator.isa.parser_exceptions import ParserException

    for w in witnesses:
        for kind, tpl in templates:
            text = tpl.format(w)
            sim = RiscvSimulation() if kind == "riscv" else ToySimulation()
            try:
                sim.load_program(text)
                res = None
            except ParserException as ex:
                nlines = len(text.splitlines())
                res = "ParserException" if isinstance(ex.line_number, int) and 1 <= ex.line_number <= nlines else "ParserException-bad-line-%r" % (ex.line_number,)
            except Exception as ex:  # noqa
                res = type(ex).__name__
            e.claim("witness-yields-parser-error", res in (None, "ParserException"), {"literal": w[:30], "len": len(w), "text": text[:60], "result": res})
    e.claim("canary:lint", len(witnesses) > 100)


FAULT_TEXTS = [
    # lexical faults
    "addi x1, x0, 007", "addi x1, x0, 0x", "addi x1, x0, 0b2", "addi x1, x0, 1_000", "addi x1, x0, ٣", "addi x1, x0, +5", "addi x1, x0, --5", "addi x1, x0, 5.0",
    "addi x1, x0", "addi x1,, x0, 1", "addi x32, x0, 1", "addi x1 x0 1", "bogus x1, x0, 1", "addi x1, x0, 1, 2", "lw x1, (x2)", "lw x1, 4(x2", "lw x1, 4[x2]",
    "jal x1", "lui x1, x2", "add x1, x2, 3", "li x1", "mv x1", "la x1, 5", "ecall x1", "nop nop",
    # structural faults
    "beq x0, x0, nowhere", "jal x0, nowhere+0x4", "a: nop\na: nop", "a:\na:\nnop", "a: nop\na:", "beq x0, x0, 3", "jal x0, 7", "lw x1, nope", "sw x1, nope, x2", "la x1, nope[2]",
    ".data\nv: .word 1\nv: .byte 2\n.text\nnop", ".data\n.data\nnop", ".text\n.text\nnop", ".data\nx: .word 1\n.text\nnop\n.data\ny: .word 2", ".bogus\nnop", ".data\nadd x1, x2, x3", ".data\nlabel:\n.text\nnop",
    ".text\nv: .word 1", "v: .word 1", ".data\nv: .word\n.text\nnop", ".data\nv: .word 1,\n.text\nnop", ".data\nv: .quad 1\n.text\nnop", ".data\nv: .string abc\n.text\nnop", ".data\nv: .zero -1\n.text\nnop", ".data\nv: .zero 0x10\n.text\nnop",
    ".data\nv: .word 1\n.text\nlw x1, v[-1]", ".data\nv: .word 1\n.text\nlw x1, v[0x1]", ".data\nv: .word 1\n.text\nlw x1, v[1", ".data\nv: .word 1\n.text\nlw x1, v[007]",
    "\x00", "\ufeffnop", "nop\r\nnop", "nop\x0bnop", "nop;nop", ":", "x1:", "1abc: nop", "abc : nop", "ecall:", "nop:",
    # size faults
    "LARGE_TEXT", "LARGE_DATA",
]

TOY_FAULT_TEXTS = [
    "LDA", "LDA 1 2", "LDA x1", "LDA 0x", "LDA -1", "LDA 007", "NOT 5", "BOGUS", "lda nowhere", "a: NOP\na: NOP", ".data\nv: .word\n.text\nNOP", ".data\nINC\n", ".text\nv: .word 1",
    ".data\n.data\n", ".bogus", "LDA 99999", ".data\nv: .word 70000\n.text\nNOP", ".data\nv: .byte 1\n.text\nNOP", "LDA ٣", "NOP\x00", "LARGE_TEXT", "LARGE_DATA",
]


def expand_text(t, kind):
    if t == "LARGE_TEXT":
        return "\n".join(["nop" if kind == "riscv" else "NOP"] * (4100 if kind == "riscv" else 4100))
    if t == "LARGE_DATA":
        if kind == "riscv":
            return ".data\nz: .zero 1073741824\nw: .word 1, 2\n.text\nnop"
        return ".data\n" + "\n".join("v%d: .word %s" % (i, ", ".join(["1"] * 64)) for i in range(65)) + "\n.text\nNOP"
    return t


def h_fault_text(e, kind, i):
    from architecture_simulator.simulation.riscv_simulation import RiscvSimulation
    from architecture_simulator.simulation.toy_simulation import ToySimulation
    from architecture_simulator.isa.parser_exceptions import ParserException, MemorySizeException
    from architecture_simulator.uarch.memory.memory import MemoryAddressError

    raw = (FAULT_TEXTS if kind == "riscv" else TOY_FAULT_TEXTS)[i]
    text = expand_text(raw, kind)
    contexts = [text, "nop\n" + text if kind == "riscv" else "NOP\n" + text, "# c\n\n" + text]
    if raw.startswith("LARGE"):
        contexts = contexts[:1]  # assembling thousands of lines is slow; one context suffices
    for ci, t in enumerate(contexts):
        for variant in range(2 if kind == "riscv" and not raw.startswith("LARGE") else 1):
            sim = (RiscvSimulation(mode=["single_stage_pipeline", "five_stage_pipeline"][variant]) if kind == "riscv" else ToySimulation())
            nlines = len(t.splitlines())
            try:
                sim.load_program(t)
                res = "ok"
            except ParserException as ex:
                res = "ParserException" if isinstance(ex.line_number, int) and 1 <= ex.line_number <= max(nlines, 1) else "ParserException with line %r of %d" % (ex.line_number, nlines)
            except (MemorySizeException, MemoryAddressError) as ex:
                res = "size" if raw.startswith("LARGE") else type(ex).__name__ + " for a program that fits"
            except Exception as ex:  # noqa
                res = type(ex).__name__ + ": " + str(ex)[:80]
            e.claim("load-outcome-c%d" % ci, res in ("ok", "ParserException", "size"), {"text": t[:80], "outcome": res})
    e.observe("text", raw[:40])
    e.claim("canary:fault", False)


def h_directive_shapes(e, kind, n):
    """every text of exactly n lines over {.data, .text, an instruction, a declaration, a label,
    blank}: loading succeeds or raises a ParserException with a line number inside the text"""
    import itertools
    from architecture_simulator.simulation.riscv_simulation import RiscvSimulation
    from architecture_simulator.simulation.toy_simulation import ToySimulation
    from architecture_simulator.isa.parser_exceptions import ParserException

    lines = [".data", ".text", "nop" if kind == "riscv" else "NOP", "v%d: .word 1", "l%d:", ""]
    bad = []
    count = 0
    for combo in itertools.product(range(len(lines)), repeat=n):
        t = "\n".join((lines[k] % i if "%d" in lines[k] else lines[k]) for i, k in enumerate(combo))
        sim = RiscvSimulation() if kind == "riscv" else ToySimulation()
        count += 1
        try:
            sim.load_program(t)
        except ParserException as ex:
            if not (isinstance(ex.line_number, int) and 1 <= ex.line_number <= n):
                bad.append((t, "ParserException with line %r" % (ex.line_number,)))
        except Exception as ex:  # noqa
            bad.append((t, type(ex).__name__ + ": " + str(ex)[:60]))
    e.observe("texts", count)
    e.claim("directive-shapes-%d" % n, not bad, {"first": bad[:3], "count": len(bad)})
    e.claim("canary:shapes", count == 0)


def h_runtime(e, m, mode):
    """a faulting instruction reports its own address and printed form (both modes)"""
    from symx.state import mk_riscv, place_instructions
    from checks.progs import sym_fields
    from architecture_simulator.isa.riscv.rv32i_instructions import instruction_map, ADDI
    from architecture_simulator.simulation.runtime_errors import InstructionExecutionException
    from symx.ops import cond, lor, zx

    c = mk_riscv(e, mode=mode)
    kw, f = sym_fields(e, m, "i_")
    ins = instruction_map[m](**kw)
    k = e.choose(3)
    items = [(4 * j, ADDI(rd=0, rs1=0, imm=0)) for j in range(k)] + [(4 * k, ins)] + [(4 * k + 4, ADDI(rd=0, rs1=0, imm=0))]
    place_instructions(e, c, items)
    if m == "ecall":
        e.assume(lor(*[cond("==", c.regs0.get(17), v) for v in (0, 3, 5, 12, 94, 2**31)]))
    exc = None
    other = None
    n = 0
    try:
        while not c.sim.is_done() and n < 40:
            c.sim.step()
            n += 1
    except InstructionExecutionException as ex:
        exc = ex
    except Exception as ex:  # noqa
        other = ex
    e.observe("faulted", exc is not None)
    e.claim("only-instruction-execution-errors", other is None, {"exception": repr(other)[:200]})
    if exc is not None:
        e.claim_eq("error-address", exc.address, 4 * k)
        e.claim_eq("error-printed-form", exc.instruction_repr, repr(ins))
        e.claim("error-message-is-text", isinstance(exc.error_message, str) and len(exc.error_message) > 0)
        e.claim("canary:address", exc.address == 4 * k + 4)
    return "ok"


# ---- token corruptions of every line shape --------------------------------------------------------

CORRUPT_BASE = {
    "riscv": [
        "add x1, x2, x3", "addi x1, x2, -5", "slli x1, x2, 3", "lw x1, 8(x2)", "lw x1, x2, 8", "sw x1, 8(x2)", "sw x1, x2, 8", "beq x1, x2, here", "beq x1, x2, here+0x8", "beq x1, x2, 8",
        "jal x1, here", "jal x1, here+0x4", "jal x1, 16", "jalr x1, x2, 4", "lui x1, 5", "auipc x1, 5", "li x1, 70000", "la x1, v", "la x1, v[1]", "lw x1, v", "lw x1, v[1]", "sw x1, v, x5", "sb x1, v[1], x5",
        "mv x1, x2", "nop", "ecall", "csrrw x1, 0x001, x2", "csrrwi x1, 0x001, 3", "fence x0, x0", "here: add x1, x2, x3", "mul x1, x2, x3",
    ],
    "toy": ["LDA 5", "STO 0x010", "ADD w", "BRZ here", "INC", "here: DEC", "NOT", "ZRO"],
}
JUNK = ["", "+", "-", "8", "08", "0x", "0xg", "0b2", "x99", ",", "(", ")", "[", "]", ":", "here+", "here+8", "here+0b100", "here+0xg", "here-4", "+0x4", "v[", "v[]", "v[x1]", "v[-1]", "1e3", "0x1p3", "#", "'", '"', ".", ".word", "%hi(v)", "x1x", chr(92), chr(9), "nop", "4(", "4(x2", "(x2)", "--1", "++1", "0x-1", chr(0x663), chr(0)]


def tokens_of(line):
    import re

    return [t for t in re.split(r"(\s+|,|\(|\)|\[|\]|\+|:)", line) if t != ""]


def h_corrupt(e, kind, i):
    """one grammar line shape; every token of it is replaced by / followed by / preceded by every junk
    token; the corrupted line is loaded inside a program that defines the label and the variable
    it refers to.  Loading succeeds or raises a ParserException with a line of the text."""
    from architecture_simulator.simulation.riscv_simulation import RiscvSimulation
    from architecture_simulator.simulation.toy_simulation import ToySimulation
    from architecture_simulator.isa.parser_exceptions import ParserException, MemorySizeException
    from architecture_simulator.uarch.memory.memory import MemoryAddressError

    base = CORRUPT_BASE[kind][i]
    toks = tokens_of(base)
    bad = []
    count = 0
    frame = (".data\nv: .word 1, 2\n.text\n%s\nhere2: nop\n" + ("" if base.startswith("here:") else "here: nop\n")) if kind == "riscv" else (".data\nw: .word 1\n.text\n%s\n" + ("" if base.startswith("here:") else "here: NOP\n"))
    for k in range(len(toks)):
        if toks[k].isspace():
            continue
        for j in JUNK:
            for how in ("replace", "after", "before"):
                t2 = list(toks)
                if how == "replace":
                    t2[k] = j
                elif how == "after":
                    t2[k] = toks[k] + j
                else:
                    t2[k] = j + toks[k]
                line = "".join(t2)
                text = frame % line
                nlines = len(text.splitlines())
                count += 1
                sim = RiscvSimulation() if kind == "riscv" else ToySimulation()
                try:
                    sim.load_program(text)
                    res = "ok"
                except ParserException as ex:
                    res = "ok" if isinstance(ex.line_number, int) and 1 <= ex.line_number <= max(nlines, 1) else "ParserException with line %r of %d" % (ex.line_number, nlines)
                except (MemorySizeException, MemoryAddressError):
                    res = "size error for a program that fits"
                except Exception as ex:  # noqa
                    res = type(ex).__name__ + ": " + str(ex)[:60]
                if res != "ok":
                    bad.append((line, res))
    e.observe("texts", count)
    e.claim("corrupted-line-loads-or-raises-parser-error", not bad, {"bad": bad[:4], "count": len(bad)})
    e.claim("canary:corrupt", count == 0)


HARNESSES = {"lint": h_lint, "fault_text": h_fault_text, "runtime": h_runtime, "directive_shapes": h_directive_shapes, "corrupt": h_corrupt}


def jobs(tier, seed):
    out = []
    seen = set()
    for mod, arg, base, line in find_int_sites():
        if (mod, arg) in NON_LITERAL_SITES:
            continue
        if arg.startswith("fixedint") or arg.startswith("kwargs") or (mod, arg) in seen:
            continue
        seen.add((mod, arg))
        out.append({"label": "lint-%s-%s" % (mod, arg.replace(" ", "")), "harness": "lint", "args": {"mod": mod, "arg": arg}, "cost": 5, "validate": False})
    for i in range(len(FAULT_TEXTS)):
        out.append({"label": "fault-riscv-%d" % i, "harness": "fault_text", "args": {"kind": "riscv", "i": i}, "cost": 1, "validate": False})
    for i in range(len(TOY_FAULT_TEXTS)):
        out.append({"label": "fault-toy-%d" % i, "harness": "fault_text", "args": {"kind": "toy", "i": i}, "cost": 1, "validate": False})
    for kind in ("riscv", "toy"):
        for n in (1, 2, 3, 4) + ((5,) if tier == "thorough" else ()):
            out.append({"label": "shapes-%s-%d" % (kind, n), "harness": "directive_shapes", "args": {"kind": kind, "n": n}, "cost": 6**n / 50, "validate": False})
    for kind in ("riscv", "toy"):
        for i in range(len(CORRUPT_BASE[kind])):
            out.append({"label": "corrupt-%s-%d" % (kind, i), "harness": "corrupt", "args": {"kind": kind, "i": i}, "cost": 8, "validate": False})
    for m in ("lb", "lh", "lw", "lbu", "lhu", "sb", "sh", "sw", "ecall"):
        for mode in ("single_stage_pipeline", "five_stage_pipeline"):
            out.append({"label": "runtime-%s-%s" % (m, mode[:4]), "harness": "runtime", "args": {"m": m, "mode": mode}, "cost": 3})
    return out


def classify(job, label, model):
    if job["harness"] == "lint":
        return "C15:literal-conversion-valueerror"
    return "C15:%s:%s" % (job["label"], label)


if __name__ == "__main__":
    from symx import runner
    import checks.c15 as me

    runner.main(me)
