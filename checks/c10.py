"""C10 Replacement policies: LRU evicts the least recently used, PLRU follows its tree.

One inductive step of the real LRU / PLRU objects from an arbitrary policy state (LRU: any
permutation as order list, with ghost last-access timestamps; PLRU: any tree bits) and an
arbitrary accessed block."""
from __future__ import annotations

from symx.ops import cond, land, lor, lnot, val, ite

PROPERTY = "C10"
LEVEL = "model_checking"
TRUSTED = ["z3 5.1 QF_UFBV", "CrossHair 0.0.110 as an independent second engine for associativity <= 4 (a counterexample fails the check; 'not confirmed' within the time budget is only recorded in the quick tier and fails the thorough tier)", "the reference readings of 'least recently used' (ghost timestamps) and of the PLRU tree walk written in this file"]
ASSUMPTIONS = [
    "LRU pre-state: order list is a permutation of range(n) sorted by strictly increasing ghost timestamps (every reachable state has this form: initial list = index order = never-accessed blocks first)",
    "PLRU pre-state: arbitrary bits; associativity a power of two",
    "by induction over accesses the claims extend to histories of any length",
]
RULE = "one case = one feasible path of one policy operation from a symbolic policy state"


def bounds(tier):
    return {"lru_access_associativity": "1..6" if tier == "quick" else "1..8", "lru_repr_associativity": "1..4" if tier == "quick" else "1..6", "plru_associativity": [1, 2, 4, 8], "fill_ways": [2, 4]}


def sym_perm(e, n, name="L"):
    xs = [e.int("%s%d" % (name, i), 0, n - 1) for i in range(n)]
    for i in range(n):
        for j in range(i + 1, n):
            e.assume(cond("!=", xs[i], xs[j]))
    return xs


class TS:
    """ghost timestamps: block -> time (uninterpreted in the symbolic run)"""

    def __init__(self, e, n):
        self.e = e
        self.n = n
        if e.mode == "sym":
            e.uf("TS", 4, 16, export=range(n))
        self.over = []  # (block, time) newest last

    def at(self, b):
        from symx.core import SymInt
        from symx.containers import key_term

        if self.e.mode == "sym":
            t = SymInt.from_unsigned(self.e.apply_uf("TS", key_term(b, 4)))
        else:
            t = self.e.uf_value("TS", int(b))
        for blk, tm in self.over:
            t = ite(cond("==", b, blk), tm, t)
        return t


def lru_state(e, n):
    from architecture_simulator.uarch.memory.replacement_strategies import LRU

    p = LRU(n)
    e.claim("initial-order-is-index-order", list(p.lru) == list(range(n)))
    L = sym_perm(e, n)
    ts = TS(e, n)
    for j in range(n - 1):
        e.assume(cond("<", ts.at(L[j]), ts.at(L[j + 1])))
    p.lru = list(L)
    return p, L, ts


def h_lru(e, n):
    """access(): moves the accessed block to the newest position, keeps the rest ordered"""
    p, L, ts = lru_state(e, n)
    now = e.int("now", 0, 0xFFFF)
    e.assume(cond(">", now, ts.at(L[n - 1])))
    i = e.int("i", 0, n - 1)
    e.claim_eq("victim-is-oldest", p.get_next_to_replace(), L[0])
    for k in range(n):
        e.claim("victim-has-min-timestamp-%d" % k, cond("<=", ts.at(p.get_next_to_replace()), ts.at(L[k])))
    p.access(i)
    ts.over.append((i, now))
    L2 = list(p.lru)
    e.observe("after", L2)
    e.claim("still-length-n", len(L2) == n)
    for j in range(len(L2) - 1):
        e.claim("sorted-by-last-access-%d" % j, cond("<", ts.at(L2[j]), ts.at(L2[j + 1])))
    if L2:
        e.claim_eq("accessed-is-newest", L2[-1], i)
        e.claim("canary:accessed-is-oldest", cond("==", L2[0], i) if n > 1 else False)
    for b in range(n):
        e.claim("still-permutation-%d" % b, lor(*[cond("==", x, b) for x in L2]))
    e.claim_eq("victim-after", p.get_next_to_replace(), L2[0])
    p.access(i)
    e.claim_eq("idempotent", list(p.lru), L2)
    e.claim("associativity-attr", p.associativity == n)


def h_lru_repr(e, n):
    """get_repr(): the reported age of block b is the number of blocks accessed longer ago"""
    p, L, ts = lru_state(e, n)
    rep = p.get_repr()
    e.observe("repr", rep)
    e.claim("repr-length", len(rep) == n)
    for b in range(n):
        older = 0
        for k in range(n):
            older = older + ite(cond("<", ts.at(L[k]), ts.at(b)), 1, 0)
        e.claim_eq("repr-is-age-rank-%d" % b, rep[b], older)
    e.claim("canary:repr", cond("==", rep[0], rep[n - 1]) if n > 1 else False)
    e.claim_eq("repr-leaves-state", list(p.lru), L)


def plru_expected(n, bits, idx):
    """reference: bits after access(idx) (idx concrete), victim before/after"""
    d = n.bit_length() - 1
    new = list(bits)
    for l in range(d):
        node = (1 << l) - 1 + (idx >> (d - l))
        direction = (idx >> (d - l - 1)) & 1  # 0 = left child on the path, 1 = right child
        new[node] = direction == 0  # point to the other subtree: True = walk right
    return new


def plru_victim_paths(n, bits):
    """reference victim as formula: list of (condition, block)"""
    d = n.bit_length() - 1
    out = []
    for blk in range(n):
        cs = []
        for l in range(d):
            node = (1 << l) - 1 + (blk >> (d - l))
            direction = (blk >> (d - l - 1)) & 1
            b = bits[node]
            t = b.c if hasattr(b, "c") and b._v is None else bool(b)
            cs.append(t if direction == 1 else lnot(t))
        out.append((land(*cs), blk))
    return out


def h_plru(e, n):
    from architecture_simulator.uarch.memory.replacement_strategies import PLRU

    p = PLRU(n)
    e.claim("initial-bits-false", list(p.tree_array) == [False] * (n - 1))
    bits = [e.bool("b%d" % k) for k in range(n - 1)]
    raw = list(bits)
    p.tree_array = list(bits)
    i = e.int("i", 0, n - 1)
    # victim before: the leaf reached from the root
    v0 = p.get_next_to_replace()
    for c, blk in plru_victim_paths(n, raw):
        e.claim("victim-follows-tree-%d" % blk, lor(lnot(c), cond("==", v0, blk)))
    p.access(i)
    ic = e.concretize(i) if e.mode == "sym" else int(i)
    want = plru_expected(n, raw, ic)
    got = list(p.tree_array)
    e.observe("bits", [bool(b) for b in got])
    e.claim("length", len(got) == n - 1)
    from symx.compare import sym_eq

    for k in range(n - 1):
        e.claim("bit-%d" % k, sym_eq(got[k], want[k]) if e.mode == "sym" else bool(got[k]) == bool(want[k]))
    v1 = p.get_next_to_replace()
    if n > 1:
        e.claim("victim-is-not-the-accessed-block", cond("!=", v1, ic))
        e.claim("canary:victim-is-accessed", cond("==", v1, ic))
    else:
        e.claim("single-way-victim", v1 == 0)
    for c, blk in plru_victim_paths(n, got):
        e.claim("victim-after-follows-tree-%d" % blk, lor(lnot(c), cond("==", v1, blk)))
    snapshot = [bool(b) for b in p.tree_array]
    p.access(ic)
    e.claim("idempotent", [bool(b) for b in p.tree_array] == snapshot)
    e.claim("repr-shows-tree-bits", [bool(b) for b in p.get_repr()] == [bool(b) for b in p.tree_array])


def h_crosshair(e, timeout, require_all):
    """second engine: CrossHair 0.0.110 on PEP316 contracts around the real classes"""
    import os
    import re
    import subprocess
    import sys

    here = os.path.dirname(os.path.abspath(__file__))
    target = os.path.join(here, "xh", "c10_contracts.py")
    env = dict(os.environ)
    env["PYTHONPATH"] = os.environ.get("VERIF_REPO", "/repo")
    r = subprocess.run([sys.executable, "-m", "crosshair", "check", "--report_all", "--per_condition_timeout", str(timeout), target], capture_output=True, text=True, env=env, timeout=timeout * 20 + 120)
    lines = [l for l in (r.stdout + r.stderr).splitlines() if "c10_contracts.py" in l]
    confirmed = [l for l in lines if "Confirmed over all paths" in l]
    errors = [l for l in lines if ": error:" in l]
    other = [l for l in lines if l not in confirmed and l not in errors]
    e.observe("confirmed", len(confirmed))
    e.observe("counterexamples", len(errors))
    e.notes["crosshair_inconclusive"] = len(other)
    e.claim("crosshair-finds-no-counterexample", not errors, {"errors": [re.sub(r"^.*c10_contracts.py:", "", l)[:200] for l in errors[:3]]})
    e.claim("crosshair-ran", len(lines) >= 12, {"output": (r.stdout + r.stderr)[-300:]})
    if require_all:
        e.claim("crosshair-confirms-all-postconditions", len(confirmed) == len(lines) and len(lines) >= 12, {"not_confirmed": other[:3]})
    e.claim("canary:crosshair", len(confirmed) > 1000)


def h_fill(e, repl, ways, kind, op):
    """which block a fill displaces (CacheSet inside the real memory system, single set): from an
    arbitrary set state (valid bits, tags, policy state symbolic) a miss places the block in the
    way the policy names - whether or not another way is still empty -, every other way keeps
    its block, and the policy is told about exactly that way (reference post-state of
    checks/cachestep.py, the same VCs as C09 on this geometry)"""
    from checks import cachestep

    saved = e.claim

    def relabel(label, c, info=None):
        return saved(label.replace("C09:", "fill:"), c, info)

    e.claim = relabel
    try:
        cachestep.h_step(e, kind, repl, 0, 0, ways, op, 4, op == "read", ["C09"])
    finally:
        e.claim = saved


def h_deep(e, **kw):
    from checks import cachestep

    return cachestep.h_deep(e, **kw)


HARNESSES = {"lru": h_lru, "lru_repr": h_lru_repr, "plru": h_plru, "crosshair": h_crosshair, "fill": h_fill, "deep": h_deep}


def jobs(tier, seed):
    out = []
    for n in range(1, 7 if tier == "quick" else 9):
        out.append({"label": "lru-access-%d" % n, "harness": "lru", "args": {"n": n}, "cost": n * n})
    for n in range(1, 5 if tier == "quick" else 7):
        out.append({"label": "lru-repr-%d" % n, "harness": "lru_repr", "args": {"n": n}, "cost": n**4, "validate_every": 1 if n < 5 else 9})
    out.append({"label": "crosshair", "harness": "crosshair", "args": {"timeout": 20 if tier == "quick" else 60, "require_all": tier == "thorough"}, "cost": 1000, "validate": False})
    # PLRU 16 is out of reach for eager forking (2^15 tree states x 16 accesses paths): stated bound 8
    for n in [1, 2, 4, 8]:
        out.append({"label": "plru-%d" % n, "harness": "plru", "args": {"n": n}, "cost": n * n, "validate_every": 1 if n < 8 else 11})
    for repl in ("lru", "plru"):
        for ways in (2, 4):
            for kind, op in (("wb", "read"), ("wb", "write"), ("wt", "read")):
                out.append({"label": "fill-%s-%d-%s-%s" % (repl, ways, kind, op), "harness": "fill", "args": {"repl": repl, "ways": ways, "kind": kind, "op": op}, "cost": ways**3, "validate_every": 3, "timeout_ms": 20000})
    from checks import cachestep

    out += cachestep.deep_jobs(tier, {"C10"}, "checks.c10")
    return out


if __name__ == "__main__":
    from symx import runner
    import checks.c10 as me

    runner.main(me)
