"""C18 Flat memory is a little-endian byte store with wrap-around and range checks.

One inductive step of the real Memory read_*/write_* from an arbitrary store (presence and
contents of every cell symbolic), arbitrary address (also negative / >= 2^32 / unaligned) and
value, in the RISC-V configuration and the TOY configuration."""
from __future__ import annotations

from symx.ops import zx, cond, land, lor, lnot, val

PROPERTY = "C18"
LEVEL = "model_checking"
TRUSTED = ["z3 5.1 QF_UFBV", "fixedint model (validated each run)", "reference: sequential little-endian byte store written in this file"]
ASSUMPTIONS = [
    "addresses in [-2^33, 2^33], values in [-2^(w+1), 2^(w+1)] before the UIntN constructor",
    "initial store: arbitrary key presence and arbitrary cell contents (covers every write history; by induction the claim extends to histories of any length)",
]
RULE = "one case = one feasible path of one Memory operation (configuration x operation x width) with store, address and value symbolic"

NAMES = {1: "byte", 2: "halfword", 4: "word", 8: "doubleword"}


def bounds(tier):
    return {"operations_per_case": 1, "address_range": "[-2^33, 2^33]", "configs": ["riscv: byte cells, 32-bit, overflow, range [2^14,2^32)", "toy: 16-bit cells, 12-bit addresses, no overflow", "anyrange: byte cells, 32-bit, overflow, range [lo,2^32) with lo symbolic in [0,2^20] (lo = 0 is the class default)"]}


def mk_memory(e, config):
    from architecture_simulator.uarch.memory.memory import Memory, AddressingType
    from symx.containers import Store, SymMem, SymRange
    from symx.state import fx

    f = fx()
    if config == "riscv":
        m = Memory(AddressingType.BYTE, 32, True, range(2**14, 2**32))
        st = Store(e, "M0", 32, 8, presence=True)
        m.memory_file = SymMem(e, st, f.UInt8, total=False)
        if e.mode == "sym":
            m.address_range = SymRange(2**14, 2**32)
        return m, st, 8, 2**14, 2**32, True
    if config == "anyrange":
        # byte store with wrap-around whose first valid address is symbolic (0 = the class default,
        # the memory the pipeline tests install; 2^14 = the simulator's data memory)
        lo = e.int("range_lo", 0, 2**20)
        m = Memory(AddressingType.BYTE, 32, True, range(lo, 2**32) if e.mode != "sym" else None)
        st = Store(e, "M0", 32, 8, presence=True)
        m.memory_file = SymMem(e, st, f.UInt8, total=False)
        if e.mode == "sym":
            m.address_range = SymRange(lo, 2**32)
        return m, st, 8, lo, 2**32, True
    m = Memory(AddressingType.HALF_WORD, 12, address_range=range(4096))
    st = Store(e, "T0", 12, 16, presence=True)
    m.memory_file = SymMem(e, st, f.UInt16, total=False)
    if e.mode == "sym":
        m.address_range = SymRange(0, 4096)
    return m, st, 16, 0, 4096, False


def h_access(e, config, op, nbytes):
    from architecture_simulator.uarch.memory.memory import MemoryAddressError, UnsupportedFunctionError
    from symx.state import fx

    f = fx()
    m, st, cellbits, lo, hi, wrap = mk_memory(e, config)
    pre = st.fork()
    total_bits = 8 * nbytes
    ncells = total_bits // cellbits if total_bits >= cellbits else 0
    a = e.int("a", -(2**33), 2**33)
    fn = getattr(m, "%s_%s" % (op, NAMES[nbytes]))
    cls = getattr(f, "UInt%d" % total_bits)
    exc = None
    got = None
    if op == "write":
        v = e.int("v", -(2 ** (total_bits + 1)), 2 ** (total_bits + 1))
        arg = cls(v)
    try:
        if op == "read":
            got = fn(a)
        else:
            fn(a, arg)
    except (MemoryAddressError, UnsupportedFunctionError) as ex:
        exc = ex
    q = e.int("q", 0, (2**32 - 1) if config != "toy" else 4095)
    e.observe("exc", type(exc).__name__ if exc is not None else None)
    e.observe("got", got)
    e.observe("M'[q]", st.abstract(q))
    if ncells == 0:
        # function narrower than a cell: must be refused, store untouched
        e.claim("unsupported-raises", isinstance(exc, UnsupportedFunctionError))
        e.claim_eq("unsupported-store-unchanged", st.abstract(q), pre.abstract(q))
        return
    e.claim("no-unsupported-error", not isinstance(exc, UnsupportedFunctionError))
    touched = [zx(a + i, 32) if wrap else a + i for i in range(ncells)]
    inrange = [land(cond(">=", t, lo), cond("<", t, hi)) for t in touched]
    all_in = land(*inrange)
    all_out = land(*[lnot(c) for c in inrange])
    e.claim("error-iff-touches-outside", lnot(all_in) if exc is not None else all_in)
    if exc is not None:
        e.claim("error-type", isinstance(exc, MemoryAddressError))
    if op == "read":
        e.claim_eq("read-leaves-store-unchanged", st.abstract(q), pre.abstract(q))
        if exc is None:
            want = 0
            for i, t in enumerate(touched):
                want = want | (pre.abstract(t) << (cellbits * i))
            e.claim_eq("read-value", val(got), want)
            e.claim("canary:read-value", cond("==", val(got), zx(want + 1, total_bits)))
            e.claim("read-type", type(got).__name__ == "UInt%d" % total_bits)
        return
    # write: sequential little-endian reference; cells before the first out-of-range one are written
    ref = pre.fork()
    vv = zx(v, total_bits)
    if exc is None:
        for i, t in enumerate(touched):
            ref.set(t, zx(vv >> (cellbits * i), cellbits))
        e.claim_eq("write-store", st.abstract(q), ref.abstract(q))
        e.claim("canary:write-store", cond("==", st.abstract(q), pre.abstract(q)))
    else:
        e.claim("outside-access-changes-nothing", lor(lnot(all_out), cond("==", st.abstract(q), pre.abstract(q))))
        untouched = land(*[cond("!=", q, t) for t in touched])
        e.claim("rejected-write-frame", lor(lnot(untouched), cond("==", st.abstract(q), pre.abstract(q))))
        # cells it did write hold the right bytes
        for i, t in enumerate(touched):
            changed = cond("!=", st.abstract(t), pre.abstract(t))
            e.claim("rejected-write-cell-%d" % i, lor(lnot(changed), cond("==", st.abstract(t), zx(vv >> (cellbits * i), cellbits))))


def h_write_read(e, config, n1, n2):
    """write then read back at an overlapping address: the read composes the most recent bytes."""
    from architecture_simulator.uarch.memory.memory import MemoryAddressError
    from symx.state import fx

    f = fx()
    m, st, cellbits, lo, hi, wrap = mk_memory(e, config)
    pre = st.fork()
    a = e.int("a", lo if type(lo) is int else 0, hi - 1)
    d = e.int("d", -8, 8)
    b = a + d
    v = e.int("v", 0, 2 ** (8 * n1) - 1)
    try:
        getattr(m, "write_" + NAMES[n1])(a, getattr(f, "UInt%d" % (8 * n1))(v))
        got = getattr(m, "read_" + NAMES[n2])(b)
    except MemoryAddressError:
        return
    c1 = (8 * n1) // cellbits
    c2 = (8 * n2) // cellbits
    ref = pre.fork()
    for i in range(c1):
        ref.set(zx(a + i, 32) if wrap else a + i, zx(v >> (cellbits * i), cellbits))
    want = 0
    for i in range(c2):
        t = zx(b + i, 32) if wrap else b + i
        want = want | (ref.abstract(t) << (cellbits * i))
    e.observe("got", got)
    e.claim_eq("read-after-write", val(got), want)


def h_read_write_read(e, config, n1, n2):
    """read through any spelling of an address (also negative / >= 2^32), write overlapping cells
    through another spelling, read again through the first spelling: the second read composes the
    most recently written bytes (no result of the first read may survive the write)."""
    from architecture_simulator.uarch.memory.memory import MemoryAddressError
    from symx.state import fx

    f = fx()
    m, st, cellbits, lo, hi, wrap = mk_memory(e, config)
    pre = st.fork()
    a = e.int("a", -(2**33), 2**33) if wrap else e.int("a", 0, hi - 1)
    k = e.int("k", -2, 2) if wrap else 0  # the write uses the address shifted by k * 2^32
    d = e.int("d", -4, 4)
    b = a + d + k * 2**32
    v = e.int("v", 0, 2 ** (8 * n1) - 1)
    try:
        first = getattr(m, "read_" + NAMES[n2])(a)
        getattr(m, "write_" + NAMES[n1])(b, getattr(f, "UInt%d" % (8 * n1))(v))
        got = getattr(m, "read_" + NAMES[n2])(a)
    except MemoryAddressError:
        return
    c1 = (8 * n1) // cellbits
    c2 = (8 * n2) // cellbits
    ref = pre.fork()
    for i in range(c1):
        ref.set(zx(b + i, 32) if wrap else b + i, zx(v >> (cellbits * i), cellbits))
    want = 0
    for i in range(c2):
        t = zx(a + i, 32) if wrap else a + i
        want = want | (ref.abstract(t) << (cellbits * i))
    e.observe("first", first)
    e.observe("got", got)
    e.claim_eq("read-after-write-after-read", val(got), want)
    e.claim("canary:rwr", cond("==", val(got), zx(want + 1, 8 * n2)))


HARNESSES = {"access": h_access, "write_read": h_write_read, "read_write_read": h_read_write_read}


def jobs(tier, seed):
    out = []
    for config in ("riscv", "toy", "anyrange"):
        for op in ("read", "write"):
            for n in (1, 2, 4, 8):
                if config == "anyrange" and n == 8 and op == "read":
                    continue  # 8-cell reads fork 2^8 ways on key presence; covered in the riscv configuration
                out.append({"label": "%s-%s-%s" % (config, op, NAMES[n]), "harness": "access", "args": {"config": config, "op": op, "nbytes": n}, "cost": n})
    for n1, n2 in ((1, 4), (4, 1), (2, 4), (4, 2), (4, 4), (2, 2)):
        out.append({"label": "riscv-wr-%d-%d" % (n1, n2), "harness": "write_read", "args": {"config": "riscv", "n1": n1, "n2": n2}, "cost": 4})
    for n1, n2 in ((4, 4), (2, 4), (4, 1)):
        out.append({"label": "anyrange-wr-%d-%d" % (n1, n2), "harness": "write_read", "args": {"config": "anyrange", "n1": n1, "n2": n2}, "cost": 4})
    for n1, n2 in ((4, 4), (1, 4), (4, 2), (2, 1)):
        out.append({"label": "riscv-rwr-%d-%d" % (n1, n2), "harness": "read_write_read", "args": {"config": "riscv", "n1": n1, "n2": n2}, "cost": 5})
    out.append({"label": "anyrange-rwr-4-4", "harness": "read_write_read", "args": {"config": "anyrange", "n1": 4, "n2": 4}, "cost": 5})
    out.append({"label": "toy-rwr-2-2", "harness": "read_write_read", "args": {"config": "toy", "n1": 2, "n2": 2}, "cost": 2})
    out.append({"label": "toy-wr-2-2", "harness": "write_read", "args": {"config": "toy", "n1": 2, "n2": 2}, "cost": 2})
    out.append({"label": "toy-wr-2-4", "harness": "write_read", "args": {"config": "toy", "n1": 2, "n2": 4}, "cost": 2})
    return out


if __name__ == "__main__":
    from symx import runner
    import checks.c18 as me

    runner.main(me)
