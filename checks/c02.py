"""C02 Five-stage pipeline with hazard detection is equivalent to single-cycle mode.

(a) every instruction class as a one-instruction program (full operand space): the split into
    access_register_file / alu_compute / memory_access / write_back agrees with behavior();
(b) all instruction sequences up to a length bound over a hazard-complete alphabet, with every
    register index, immediate, branch/jump displacement, register and memory content symbolic:
    both real simulations are run to completion on the same symbolic initial state."""
from __future__ import annotations

from checks import progs
from checks.progs import ALPHABET, REDUCED, skeletons, K_DEFAULT
from symx.ops import zx, cond, land, lor, lnot, val

PROPERTY = "C02"
LEVEL = "model_checking"
TRUSTED = [
    "z3 5.1 QF_UFBV",
    "fixedint model (validated each run)",
    "CPython renderers for ecall output (placeholders compared as (renderer, value))",
    "lemma L-FP (int(a / b) is truncating division) for DIV/REM",
    "oracle = the repository's own single-cycle mode (tied to the ISA by C01)",
]
ASSUMPTIONS = [
    "program = sequence of L instructions at addresses 0,4,..; all fields symbolic (register indices 0..31, encodable immediates, even branch/jump offsets)",
    "dynamic instruction cap K=2L+2 executed instructions (loops are cut there; cut paths are counted and excluded)",
    "ecall print-string unwinding bound: %d decisions per ecall (strings of <= 3 characters are always inside)" % progs.ECALL_SITE_BOUND,
    "at most %d dynamically executed ecalls per path (further ones are cut and counted)" % progs.MAX_DYNAMIC_ECALLS,
    "paths on which z3 cannot decide the feasibility of a branch within the timeout are cut and counted (a job is inconclusive if that exceeds 2% of its paths)",
    "pc compared modulo 2^32; CSR/FENCE/EBREAK excluded",
]
RULE = "one case = one feasible path through both simulations for one program skeleton (every RAW/WAW distance, x0 pattern, branch direction and target is a path); each path is decided for all register/memory/immediate values"
MAXTASKS = 20


def bounds(tier):
    return {
        "alphabet": ALPHABET,
        "reduced_alphabet": REDUCED,
        "length_mandatory": "all L<=2 over the alphabet, six producer/ecall/consumer skeletons, plus a VERIF_SEED-rotated 1/40 of L=3 without the 'heavy' combinations (ecall inside a possible loop, mul feeding control flow, loaded jump targets), which are left to the thorough tier" if tier == "quick" else "all L<=2 over the alphabet, all L=3 over the reduced alphabet",
        "length_optional": None if tier == "quick" else "remaining L=3 skeletons (a VERIF_SEED-rotated sixth first) and L=4 over the reduced alphabet, as far as the wall budget allows; skeletons not reached are listed as jobs_skipped_optional",
        "dynamic_instruction_cap_K": "2L+2",
        "single_instruction_programs": "all 46 classes, alone and behind one addi",
    }


def compare_final(e, s1, s5, tag="", mem5=None, mem1=None):
    """claims on the final states of a single-cycle run s1 and a five-stage run s5
    (mem5: the data-memory contents of s5 as a function of the address, default: its flat memory)"""
    c1, c5 = s1.ctx, s5.ctx
    mem5 = mem5 or c5.mem_byte
    mem1 = mem1 or c1.mem_byte
    st1, st5 = c1.sim.state, c5.sim.state
    q = e.int("q", 0, 31)
    qa = e.int("qa", 0, 2**32 - 1)
    e.observe("retired1", s1.retired)
    e.observe("retired5", s5.retired)
    e.observe("fault", [s1.fault is not None, s5.fault is not None])
    e.observe("reg[q]", [c1.reg(q), c5.reg(q)])
    e.observe("mem[qa]", [mem1(qa), mem5(qa)])
    e.observe("output", [st1.output, st5.output])
    e.observe("exit", [st1.exit_code, st5.exit_code])
    e.claim("terminates-when-single-cycle-does", not s5.nonterminating, {"cycles": s5.steps})
    if s5.nonterminating:
        return
    e.claim("same-fault-status", (s1.fault is None) == (s5.fault is None), {"single": repr(s1.fault)[:160], "five": repr(s5.fault)[:160]})
    if s1.fault is not None and s5.fault is not None:
        e.claim_eq("fault-address", s5.fault.address, s1.fault.address)
        e.claim_eq("fault-repr", s5.fault.instruction_repr, s1.fault.instruction_repr)
    c1.check_cell_types(e)
    c5.check_cell_types(e)
    e.claim_eq("registers", c5.reg(q), c1.reg(q))
    e.claim_eq("memory", mem5(qa), mem1(qa))
    e.claim_eq("output", st5.output, st1.output)
    e.claim_eq("exit_code", st5.exit_code, st1.exit_code)
    if s1.fault is None and s5.fault is None:
        e.claim("retire-count", len(s5.retired) == len(s1.retired), {"single": len(s1.retired), "five": len(s5.retired)})
        if len(s5.retired) == len(s1.retired):
            e.claim_eq("retire-order", [zx(a, 32) for a in s5.retired], [zx(a, 32) for a in s1.retired])
        p1, p5 = st1.performance_metrics, st5.performance_metrics
        e.claim_eq("instruction_count", p5.instruction_count, p1.instruction_count)
        e.claim_eq("branch_count", p5.branch_count, p1.branch_count)
        e.claim_eq("procedure_count", p5.procedure_count, p1.procedure_count)
        e.claim("canary:instruction_count", p5.instruction_count == p1.instruction_count + 1)
    else:
        # at the fault, the older instructions have retired in both modes
        n = min(len(s1.retired), len(s5.retired))
        e.claim_eq("retire-order-before-fault", [zx(a, 32) for a in s5.retired[:n]], [zx(a, 32) for a in s1.retired[:n]])
    e.claim("canary:registers", cond("==", c5.reg(q), zx(c1.reg(q) + 1, 32)))


def h_prog(e, mnems, K=None):
    K = K or progs.k_for(len(mnems))
    c1, c5, items, fields = progs.setup_pair(e, mnems, detect=True)
    # five-stage first: its interlock decides the register-index relations, which lets the
    # write-log reads of the single-cycle run simplify to the same terms
    s5 = progs.run_five(e, c5, progs.cycle_bound(K), K=K)
    s1 = progs.run_single(e, c1, K)
    compare_final(e, s1, s5)


def h_prog_cached(e, **kw):
    from checks import cachestep

    return cachestep.h_prog_dcache(e, **kw)


HARNESSES = {"prog_cached": h_prog_cached, "prog": h_prog}


def heavy(sk, strict=False):
    """skeletons whose path count or solver load is far above average (measured): ecall inside a
    possible loop, multiplication feeding control flow, loaded values as jump targets"""
    s = set(sk)
    ctl = s & {"jal", "jalr", "beq", "blt"}
    if "ecall" in s and (ctl or sk.count("ecall") > 1):
        return True
    if "mul" in s and (s & {"jalr", "beq", "blt", "ecall"}):
        return True
    if (s & {"lw", "lb"}) and "jalr" in s:
        return True
    if strict and (s & {"lw", "lb"}) and (s & {"sw", "sb"}) and ctl:
        return True
    return False


def l3job(sk, optional):
    return {"label": "L3:" + ",".join(sk), "harness": "prog", "args": {"mnems": sk}, "timeout_ms": 8000, "cut_on_undecided": True, "cost": 2000000 + 20 + 30 * sk.count("ecall") + 20 * sk.count("jalr"), "validate_every": 3, "optional": optional}


def jobs(tier, seed):
    out = []
    from checks.c01 import MNEMONICS
    from checks import cachestep

    # the same equivalence with a data cache in both simulations (memory compared as the program sees it)
    for first in ("lw", "sw"):
        for st_ in ("sb", "sh", "sw", "lh"):
            for cfg in cachestep.DCFG[:2]:
                out.append({"label": "cached:%s,%s-%s" % (first, st_, "".join(map(str, cfg))), "harness": "prog_cached", "args": {"mnems": [first, st_], "cfg": list(cfg), "props": ["C02"]}, "cost": 20, "validate_every": 3, "timeout_ms": 10000, "cut_on_undecided": True})

    for m in MNEMONICS:
        out.append({"label": "one:" + m, "harness": "prog", "args": {"mnems": [m]}, "cost": 2})
        if m not in ALPHABET:
            out.append({"label": "two:addi," + m, "harness": "prog", "args": {"mnems": ["addi", m]}, "cost": 4})
    for sk in skeletons(ALPHABET, 2):
        out.append({"label": "L2:" + ",".join(sk), "harness": "prog", "args": {"mnems": sk}, "cost": 6 + 10 * sk.count("ecall"), "timeout_ms": 10000, "cut_on_undecided": True})
    l3 = skeletons(ALPHABET, 3)
    if tier == "quick":
        picked = set()
        for i, sk in enumerate(l3):
            if (i + seed) % 40 == 0 and not heavy(sk):
                out.append(l3job(sk, False))
                picked.add(tuple(sk))
        # always in the quick tier: a producer and a consumer around an ecall drain
        for a_ in ("add", "lw"):
            for b_ in ("add", "sw"):  # (a, ecall, beq) re-executes the ecall in a loop: 9 min alone, thorough tier only
                if (a_, "ecall", b_) not in picked:
                    out.append(l3job([a_, "ecall", b_], False))
                    picked.add((a_, "ecall", b_))
        # always in the quick tier: the full interlock window (producer, filler, consumer)
        for sk in (("addi", "add", "add"), ("addi", "add", "sw"), ("addi", "addi", "beq"), ("lw", "add", "add"), ("add", "lui", "lw"), ("lw", "sw", "add")):
            if sk not in picked:
                out.append(l3job(list(sk), False))
                picked.add(sk)
    else:
        red = set(REDUCED)
        rest = []
        for i, sk in enumerate(l3):
            if all(m in red for m in sk) and not heavy(sk, strict=True):
                out.append(l3job(sk, False))
            else:
                rest.append((i, sk))
        # the other L=3 skeletons: a VERIF_SEED-rotated sixth first, then the remainder, all
        # best-effort under the wall budget (what was not reached is listed in the evidence)
        rest.sort(key=lambda t: (0 if all(m in red for m in t[1]) else 1 if not heavy(t[1]) else 2, (t[0] + seed) % 6 != 0, t[0]))
        for n, (i, sk) in enumerate(rest):
            j = l3job(sk, True)
            j["max_wall_s"] = 300  # best effort: a skeleton that is not finished by then is reported as incomplete
            j["cost"] = 1000000 - n  # keep this order
            out.append(j)
        for n, sk in enumerate(skeletons(REDUCED, 4)):
            out.append({"label": "L4:" + ",".join(sk), "harness": "prog", "args": {"mnems": sk}, "cost": 1000 - n * 0.1, "optional": True, "max_wall_s": 300, "validate_every": 10, "timeout_ms": 8000, "cut_on_undecided": True})
    return out


BUDGET = {"quick": None, "thorough": 12 * 60}


def classify(job, label, model):
    return "C02:%s:%s" % (job["label"], label)


if __name__ == "__main__":
    from symx import runner
    import checks.c02 as me

    runner.main(me)
