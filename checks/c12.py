"""C12 Write-through keeps memory current; write-back never loses a written value."""
from __future__ import annotations

from checks import cachestep

PROPERTY = "C12"
LEVEL = "model_checking"
TRUSTED = ["z3 5.1 QF_UFBV", "fixedint model (validated each run)", "the representation invariant, logical-memory abstraction and reference cache written in checks/cachestep.py"]
ASSUMPTIONS = [
    "step harness: one operation from an arbitrary cache state satisfying the representation invariant of C03 (re-proved after every operation there), hence histories of any length",
    "history harness: 3 operations from a reset cache, addresses symbolic in a 16-byte window plus symbolic multiples of the cache size, values symbolic",
    "accesses rejected for crossing a word boundary or leaving the address range are outside the accounting claim",
    "the memory table shown to the user is the lower memory's table (delegation checked on the real objects)",
]
RULE = "one case = one feasible path of one cache operation from a symbolic invariant state, or of a 3-operation history from a reset cache"
MAXTASKS = 30


def bounds(tier):
    return {"geometries(index_bits, block_bits, ways)": cachestep.geometries(tier), "operations": cachestep.OPS, "history_length": 3}


def h_step(e, **kw):
    return cachestep.h_step(e, **kw)


def h_history(e, **kw):
    return cachestep.h_history(e, **kw)


def h_prog(e, **kw):
    return cachestep.h_prog_dcache(e, **kw)


def h_deep(e, **kw):
    return cachestep.h_deep(e, **kw)


HARNESSES = {"step": h_step, "history": h_history, "prog": h_prog, "deep": h_deep}


def jobs(tier, seed):
    return cachestep.step_jobs(tier, {"C12"}, "checks.c12") + cachestep.history_jobs(tier, {"C12"}, "checks.c12") + cachestep.deep_jobs(tier, {"C12"}, "checks.c12") + extra_jobs(tier, seed)


def extra_jobs(tier, seed):
    # program-level clause: the state relation at the end of bounded symbolic programs (both modes)
    return [j for j in cachestep.prog_jobs(tier, seed, {"C12"}, "checks.c12") if set(j["args"]["mnems"]) & {"sb", "sh", "sw"}]


BUDGET = {"quick": None, "thorough": 12 * 60}

if __name__ == "__main__":
    from symx import runner
    import checks.c12 as me

    runner.main(me)
