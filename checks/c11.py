"""C11 Instruction cache is transparent and its fetch accounting matches a reference.

step     one read_instruction() of the real InstructionMemoryCacheSystem from an arbitrary cache
         state satisfying the invariant (every resident block holds the instructions of its
         address range, empty slots where no instruction exists), symbolic fetch address, valid
         bits, tags, replacement state, counters and miss penalty
reset    reset() from an arbitrary state yields a state equal to a fresh cache system
programs bounded symbolic programs in both modes with an instruction cache: results unchanged,
         accesses = number of fetches (one per executed instruction in single-cycle mode), hits =
         those of a reference cache fed the same fetch addresses, every miss adds the penalty"""
from __future__ import annotations

import itertools

from checks import cachestep, progs
from checks.cachestep import Geo, bterm, abstract_state, _iff, plru_after, plru_victim_formula
from checks.progs import ALPHABET, skeletons
from symx.ops import zx, cond, land, lor, lnot, ite, val, implies

PROPERTY = "C11"
LEVEL = "model_checking"
TRUSTED = ["z3 5.1 QF_UFBV", "fixedint model (validated each run)", "the reference cache (checks/cachestep.py post-state reference; concrete trace-driven reference in this file)"]
ASSUMPTIONS = [
    "step harness: program of 5 instructions at addresses 0..16; geometries (index bits, block bits, ways) in {0,1}x{0,1}x{1,2}; tags of resident blocks symbolic over the 4 block numbers that can occur (complete case split); induction over fetches",
    "reload harness: all ordered pairs of 5 concrete program texts (incl. empty and failing), 0/3/30 executed steps before the reload",
    "program harness: bounds of C02 (L<=2 quick), instruction cache geometries (0,0,1), (1,0,2 lru), (0,1,2 plru), symbolic miss penalty in [0,1000]",
]
RULE = "one case = one feasible path of one fetch from a symbolic invariant state, of reset(), or of a bounded symbolic program run in both modes with an instruction cache"
MAXTASKS = 30

NPROG = 5


def bounds(tier):
    return {"step_program_length": NPROG, "geometries": GEOS, "programs": "all one-instruction programs (sample), light L=2 skeletons (rotating sixth)"}


GEOS = [(0, 0, 1), (1, 0, 1), (0, 1, 1), (0, 0, 2), (1, 0, 2), (0, 1, 2), (1, 1, 2)]


def mk_icache(e, repl, g: Geo, symbolic_state=True):
    from architecture_simulator.uarch.memory.instruction_memory import InstructionMemory
    from architecture_simulator.uarch.memory.instruction_memory_cache_system import InstructionMemoryCacheSystem
    from architecture_simulator.uarch.memory.decoded_address import DecodedAddress
    from architecture_simulator.uarch.riscv.riscv_performance_metrics import RiscvPerformanceMetrics
    from architecture_simulator.isa.riscv.rv32i_instructions import ADDI
    from architecture_simulator.isa.riscv.instruction_types import EmptyInstruction
    from symx.containers import SymKeyDict, SymRange

    prog = [ADDI(rd=k + 1, rs1=0, imm=k) for k in range(NPROG)]
    im = InstructionMemory()
    im.write_instructions(prog)
    if e.mode == "sym":
        im.instructions = SymKeyDict(list(im.instructions.items()))
        im.address_range = SymRange(im.address_range.start, im.address_range.stop)
    pm = RiscvPerformanceMetrics()
    pm.cycles = e.int("cycles0", 0, 10**6)
    penalty = e.int("penalty", 0, 1000)
    cs = InstructionMemoryCacheSystem(instruction_memory=im, num_index_bits=g.ib, num_block_bits=g.bb, associativity=g.ways, performance_metrics=pm, miss_penality=penalty, replacement_strategy=repl)
    if not symbolic_state:
        return cs, prog, pm
    cs.hits = e.int("hits0", 0, 1000)
    cs.accesses = e.int("accesses0", 0, 1000)
    cs.last_was_hit = e.bool("last0")
    nblocks = (4 * NPROG + (4 << g.bb) - 1) // (4 << g.bb)  # block numbers that contain an instruction
    ntags = (nblocks + g.sets - 1) // g.sets
    for s in range(g.sets):
        st = cs.cache.sets[s]
        for w in range(g.ways):
            b = st.blocks[w]
            n = "s%dw%d" % (s, w)
            b.valid_bit = e.bool("valid_" + n)
            b.dirty_bit = e.bool("dirty_" + n)
            tag = e.concretize(e.int("tag_" + n, 0, max(ntags - 1, 0))) if e.mode == "sym" else e.int("tag_" + n, 0, max(ntags - 1, 0))
            base = (tag << g.shift) | (s << (g.bb + 2))
            b.decoded_address = DecodedAddress(g.ib, g.bb, base)
            vals = []
            for j in range(g.words):
                a = base + 4 * j
                vals.append(prog[a // 4] if a // 4 < NPROG else EmptyInstruction())
            b.values = vals
        for w in range(g.ways):
            for w2 in range(w + 1, g.ways):
                b1, b2 = st.blocks[w], st.blocks[w2]
                if val(b1.decoded_address.tag) == val(b2.decoded_address.tag):
                    e.assume(lnot(land(bterm(b1.valid_bit), bterm(b2.valid_bit))))
        rs = st.replacement_strategy
        if repl == "lru":
            xs = [e.int("lru_s%d_%d" % (s, i), 0, g.ways - 1) for i in range(g.ways)]
            for i in range(g.ways):
                for j in range(i + 1, g.ways):
                    e.assume(cond("!=", xs[i], xs[j]))
            rs.lru = xs
        else:
            rs.tree_array = [e.bool("plru_s%d_%d" % (s, i)) for i in range(g.ways - 1)]
    return cs, prog, pm


def istate(cs, g):
    out = []
    for s in range(g.sets):
        st = cs.cache.sets[s]
        ways = []
        for w in range(g.ways):
            b = st.blocks[w]
            ways.append({"valid": bterm(b.valid_bit), "tag": val(b.decoded_address.tag), "base": val(b.decoded_address.block_alinged_address), "values": list(b.values)})
        rs = st.replacement_strategy
        out.append({"ways": ways, "repl": ("lru", list(rs.lru)) if hasattr(rs, "lru") else ("plru", [bterm(x) for x in rs.tree_array])})
    return out


def h_step(e, repl, ib, bb, ways):
    from architecture_simulator.isa.riscv.instruction_types import EmptyInstruction

    g = Geo(ib, bb, ways)
    cs, prog, pm = mk_icache(e, repl, g)
    A0 = istate(cs, g)
    k = e.int("k", 0, NPROG - 1)
    a = 4 * k
    hits0, acc0, cyc0 = cs.hits, cs.accesses, pm.cycles
    penalty = cs.miss_penality
    idx, tag = g.index(a), g.tag(a)
    hit0 = lor(*[land(cond("==", idx, s), A0[s]["ways"][w]["valid"], cond("==", A0[s]["ways"][w]["tag"], tag)) for s in range(g.sets) for w in range(g.ways)])
    got = cs.read_instruction(a)
    kc = e.concretize(k) if e.mode == "sym" else int(k)
    e.observe("k", kc)
    e.observe("got", prog.index(got) if got in prog else -1)
    e.claim("fetch-returns-the-instruction-at-the-address", got is prog[kc], {"got": repr(got)})
    e.claim_eq("accesses+1", cs.accesses, acc0 + 1)
    e.claim_eq("hits", cs.hits, hits0 + ite(hit0, 1, 0))
    e.claim("last-hit-flag", _iff(bterm(cs.last_was_hit), hit0))
    e.claim_eq("miss-penalty", pm.cycles, cyc0 + ite(hit0, 0, penalty))
    e.claim("canary:accesses", cond("==", cs.accesses, acc0))
    A1 = istate(cs, g)
    # invariant after the fetch: every valid block holds the program's instructions of its range
    for s in range(g.sets):
        for w, b in enumerate(A1[s]["ways"]):
            base = b["base"]
            bc = e.concretize(base) if (e.mode == "sym" and not isinstance(base, int)) else int(base)
            okv = len(b["values"]) == g.words
            for j in range(min(len(b["values"]), g.words)):
                aj = bc + 4 * j
                x = b["values"][j]
                okv = okv and ((x is prog[aj // 4]) if aj // 4 < NPROG else isinstance(x, EmptyInstruction))
            e.claim("invariant-s%dw%d" % (s, w), lor(lnot(b["valid"]), okv))
    # reference post-state (placement, victim, policy update)
    W0 = [{"ways": [{"valid": x["valid"], "tag": x["tag"]} for x in A0[s]["ways"]], "repl": A0[s]["repl"]} for s in range(g.sets)]
    W1 = [{"ways": [{"valid": x["valid"], "tag": x["tag"]} for x in A1[s]["ways"]], "repl": A1[s]["repl"]} for s in range(g.sets)]
    saved = e.claim

    def relabel(label, c, info=None):
        return saved(label.replace("C09:", "ref:"), c, info)

    e.claim = relabel
    try:
        cachestep._reference_post_state(e, "wt", g, W0, W1, a, "read", hit0)
    finally:
        e.claim = saved


def h_reset(e, repl, ib, bb, ways):
    from checks.snap import cache_snapshot

    g = Geo(ib, bb, ways)
    cs, prog, pm = mk_icache(e, repl, g)
    cyc0 = pm.cycles
    cs.reset()
    fresh, _, _ = mk_icache(e, repl, g, symbolic_state=False) if False else (None, None, None)
    from architecture_simulator.uarch.memory.instruction_memory import InstructionMemory
    from architecture_simulator.uarch.memory.instruction_memory_cache_system import InstructionMemoryCacheSystem
    from architecture_simulator.uarch.riscv.riscv_performance_metrics import RiscvPerformanceMetrics

    fr = InstructionMemoryCacheSystem(instruction_memory=InstructionMemory(), num_index_bits=ib, num_block_bits=bb, associativity=ways, performance_metrics=RiscvPerformanceMetrics(), miss_penality=0, replacement_strategy=repl)
    A, B = cache_snapshot(cs), cache_snapshot(fr)
    e.observe("hits", cs.hits)
    for k in A:
        e.claim_eq("reset==fresh:" + k, A[k], B[k])
    e.claim("no-instructions-left", not cs.has_instructions())
    e.claim_eq("cycles-untouched", pm.cycles, cyc0)
    e.claim("canary:reset", cs.accesses == 1)


def ref_trace_hits(addrs, g: Geo, repl):
    """concrete trace-driven reference cache: number of hits"""
    sets = [{"tags": [None] * g.ways, "lru": list(range(g.ways)), "plru": [False] * (g.ways - 1)} for _ in range(g.sets)]
    hits = 0
    for a in addrs:
        s = sets[(a >> (g.bb + 2)) & (g.sets - 1)]
        tag = a >> g.shift
        if tag in s["tags"]:
            w = s["tags"].index(tag)
            hits += 1
        else:
            if repl == "lru":
                w = s["lru"][0]
            else:
                i = 0
                for _ in range(g.ways.bit_length() - 1):
                    i = 2 * i + 2 if s["plru"][i] else 2 * i + 1
                w = i + 1 - g.ways
            s["tags"][w] = tag
        s["lru"].remove(w)
        s["lru"].append(w)
        s["plru"] = plru_after(s["plru"], g.ways, w)
    return hits


def h_prog(e, mnems, cfg):
    """both modes with an instruction cache vs single-cycle without: results and accounting"""
    from symx.state import mk_riscv, place_instructions, cache_options
    from checks.c02 import compare_final
    from architecture_simulator.isa.riscv.instruction_types import EmptyInstruction

    repl, ib, bb, ways = cfg
    g = Geo(ib, bb, ways)
    K = progs.k_for(len(mnems))
    if any(m == "ecall" for m in mnems) and e.mode == "sym":
        e.site_bounds["process_ecall"] = progs.ECALL_SITE_BOUND
    penalty = e.int("penalty", 0, 1000)
    items, fields = progs.build_program(e, mnems)
    ic = cache_options(True, ib, bb, ways, "wb", repl, 0)
    c1 = mk_riscv(e, mode="single_stage_pipeline", icache=ic)
    c5 = mk_riscv(e, mode="five_stage_pipeline", icache=ic)
    c0 = mk_riscv(e, mode="single_stage_pipeline")
    for c in (c1, c5):
        c.sim.state.instruction_memory.miss_penality = penalty
    for c in (c1, c5, c0):
        place_instructions(e, c, items)
    addr_of = {id(ins): a for a, ins in items}
    # the fetch trace is observed at the cache system's own entry point (instance-level wrapper):
    # wrong-path fetches that are flushed in the same cycle are fetches too
    fetched5 = []
    im5_obj = c5.sim.state.instruction_memory
    orig5 = im5_obj.read_instruction

    def counted5(address):
        r_ = orig5(address)
        fetched5.append(addr_of.get(id(r_), -1))
        return r_

    im5_obj.read_instruction = counted5

    def on5(sim, r):
        pass

    cyc_checks = []
    pm5 = c5.sim.state.performance_metrics
    im5 = c5.sim.state.instruction_memory
    state5 = {"cycles": 0, "acc": 0, "hits": 0}

    def on5b(sim, r):
        on5(sim, r)
        d_acc = im5.accesses - state5["acc"]
        d_hit = im5.hits - state5["hits"]
        cyc_checks.append((pm5.cycles, state5["cycles"] + 1 + penalty * (d_acc - d_hit)))
        state5.update(cycles=pm5.cycles, acc=im5.accesses, hits=im5.hits)

    s5 = progs.run_five(e, c5, progs.cycle_bound(K), on_step=on5b, K=K)
    fetched1 = []

    def on1(sim, r):
        pr = sim.state.pipeline.pipeline_registers[0]
        fetched1.append(addr_of[id(pr.instruction)])

    s1 = progs.run_single(e, c1, K, on_step=on1)
    s0 = progs.run_single(e, c0, K)
    compare_final(e, s0, s5)
    q = e.int("q1", 0, 31)
    e.claim_eq("single-cycle-cached==uncached:registers", c1.reg(q), c0.reg(q))
    e.claim_eq("single-cycle-cached==uncached:output", c1.sim.state.output, c0.sim.state.output)
    e.claim("single-cycle-cached==uncached:retired", len(s1.retired) == len(s0.retired))
    if s1.fault is None and s5.fault is None and not s5.nonterminating:
        im1 = c1.sim.state.instruction_memory
        e.claim("single-cycle-one-access-per-executed-instruction", im1.accesses == len(s1.retired), {"accesses": im1.accesses, "executed": len(s1.retired)})
        e.claim("single-cycle-hits-match-reference", im1.hits == ref_trace_hits(fetched1, g, repl), {"hits": im1.hits, "ref": ref_trace_hits(fetched1, g, repl), "trace": fetched1})
        e.claim("five-stage-accesses-equal-fetches", im5.accesses == len(fetched5), {"accesses": im5.accesses, "fetches": len(fetched5)})
        e.claim("five-stage-hits-match-reference", im5.hits == ref_trace_hits(fetched5, g, repl), {"hits": im5.hits, "ref": ref_trace_hits(fetched5, g, repl), "trace": fetched5})
        for i, (got, want) in enumerate(cyc_checks):
            e.claim_eq("cycle-advances-by-1-plus-penalties-step%d" % i, got, want)
        pm1 = c1.sim.state.performance_metrics
        e.claim_eq("single-cycle-cycles", pm1.cycles, len(s1.retired) + penalty * (im1.accesses - im1.hits))
        e.claim("canary:accesses", im1.accesses == len(s1.retired) + 1)
    e.observe("fetched5", fetched5)


def h_config(e, **kw):
    return cachestep.h_config(e, **kw)


RELOAD_PROGS = [
    "addi x1, x0, 11\naddi x2, x0, 12",
    "addi x3, x0, 13\naddi x4, x0, 14\naddi x5, x0, 15\naddi x6, x0, 16\nbeq x0, x0, 8\naddi x7, x0, 1\naddi x8, x0, 2",
    "loop: addi x1, x1, 1\naddi x2, x2, 2\nblt x1, x9, loop",
    "",
    "addi x1, x0,",  # fails to assemble
]


def h_reload(e, ia, ib, mode, cfg, steps):
    """load A, execute `steps` steps, load B: the instruction cache must be as after loading B into
    a fresh simulation, and running B gives the same results and statistics"""
    from checks.snap import cache_snapshot
    from symx.state import cache_options
    from architecture_simulator.simulation.riscv_simulation import RiscvSimulation

    repl, ib_, bb, ways = cfg

    def mk():
        return RiscvSimulation(mode=mode, instruction_cache=cache_options(True, ib_, bb, ways, "wb", repl, 3))

    def load(sim, text):
        try:
            sim.load_program(text)
            return None
        except Exception as ex:  # noqa
            return type(ex).__name__

    s1 = mk()
    load(s1, RELOAD_PROGS[ia])
    for _ in range(steps):
        if s1.is_done():
            break
        s1.step()
    x1 = load(s1, RELOAD_PROGS[ib])
    s2 = mk()
    x2 = load(s2, RELOAD_PROGS[ib])
    e.observe("load", [x1, x2])
    e.claim("same-load-result", x1 == x2)
    A, B = cache_snapshot(s1.state.instruction_memory), cache_snapshot(s2.state.instruction_memory)
    for k in A:
        e.claim("icache-after-reload==fresh:" + k, A[k] == B[k], {"reloaded": repr(A[k])[:200], "fresh": repr(B[k])[:200]})
    e.claim("listing-after-reload==fresh", s1.state.instruction_memory.get_representation() == s2.state.instruction_memory.get_representation())
    # fetches after the reload return the new program's instructions
    lower1 = s1.state.instruction_memory.instruction_memory.instructions
    for a in sorted(lower1):
        got = s1.state.instruction_memory.read_instruction(a)
        e.claim("fetch-after-reload-returns-new-instruction@%d" % a, got is lower1[a], {"got": repr(got)})
    e.claim("canary:reload", A["hits"] == -1)


def h_deep(e, repl, ib, bb, ways, ops, mask="1"):
    """fetch / reset histories from a fresh instruction cache against the executable reference
    cache of checks/cachestep.py: ops is a string over f (fetch at a symbolic address of the
    current program) and R (reset of the cache system followed by writing a different program, as
    a reload does).  Independent of the representation invariant and of any private state the
    implementation keeps next to the blocks."""
    from architecture_simulator.uarch.memory.instruction_memory import InstructionMemory
    from architecture_simulator.uarch.memory.instruction_memory_cache_system import InstructionMemoryCacheSystem
    from architecture_simulator.uarch.riscv.riscv_performance_metrics import RiscvPerformanceMetrics
    from architecture_simulator.isa.riscv.rv32i_instructions import ADDI, ORI
    from symx.containers import SymKeyDict, SymRange

    g = Geo(ib, bb, ways)
    nprog = (ways + 1) * g.sets * g.words  # one block more per set than fits
    progs = [[ADDI(rd=1 + k % 31, rs1=0, imm=k) for k in range(nprog)], [ORI(rd=1 + k % 31, rs1=0, imm=100 + k) for k in range(nprog)]]
    # mask: which instruction slots hold an instruction (repeated over the program); "1" = a
    # contiguous program, anything else = a sparse instruction memory written slot by slot
    present = [k for k in range(nprog) if mask[k % len(mask)] == "1"]
    sparse = len(present) != nprog

    def write_program(target, prog):
        if not sparse:
            target.write_instructions(prog)
        else:
            for k in present:
                target.write_instruction(4 * k, prog[k])

    cur = 0
    im = InstructionMemory()
    write_program(im, progs[0])
    pm = RiscvPerformanceMetrics()
    penalty = e.int("penalty", 0, 1000)
    cs = InstructionMemoryCacheSystem(instruction_memory=im, num_index_bits=g.ib, num_block_bits=g.bb, associativity=g.ways, performance_metrics=pm, miss_penality=penalty, replacement_strategy=repl)

    def symbolise():
        if e.mode == "sym":
            low = cs.instruction_memory
            low.instructions = SymKeyDict(list(low.instructions.items()))
            low.address_range = SymRange(low.address_range.start, low.address_range.stop)

    symbolise()
    ref = cachestep.RefCache(g, repl, write_allocate=True)
    for k, op in enumerate(ops):
        if op == "R":
            cs.reset()
            cur = 1 - cur
            write_program(cs, progs[cur])
            symbolise()
            ref = cachestep.RefCache(g, repl, write_allocate=True)
            e.claim_eq("d%d-counters-zero-after-reset" % k, [cs.hits, cs.accesses], [0, 0])
            continue
        i = e.int("i%d" % k, 0, len(present) - 1)
        if sparse:
            i = present[e.concretize(i) if e.mode == "sym" else int(i)]
        a = 4 * i
        h0, a0, c0 = cs.hits, cs.accesses, pm.cycles
        got = cs.read_instruction(a)
        ic = e.concretize(i) if e.mode == "sym" else int(i)
        blk = ic // g.words
        hit, _ = ref.access(blk % g.sets, blk // g.sets, False)
        e.observe("i%d" % k, ic)
        e.observe("hit%d" % k, val(cs.hits) - val(h0))
        e.claim("d%d-fetch-returns-the-current-program's-instruction" % k, got is progs[cur][ic], {"got": repr(got)})
        e.claim_eq("d%d-accesses+1" % k, cs.accesses, a0 + 1)
        e.claim_eq("d%d-hit-as-reference" % k, cs.hits, h0 + (1 if hit else 0))
        e.claim("d%d-last-was-hit" % k, bool(cs.last_was_hit) == hit)
        e.claim_eq("d%d-penalty-iff-miss" % k, pm.cycles, c0 if hit else c0 + penalty)
    A = istate(cs, g)
    for s_ in range(g.sets):
        for w in range(g.ways):
            tw = ref.tags[s_][w]
            b = A[s_]["ways"][w]
            if tw is None:
                e.claim("final-way-empty-s%dw%d" % (s_, w), lnot(b["valid"]))
            else:
                e.claim("final-way-holds-reference-block-s%dw%d" % (s_, w), land(b["valid"], cond("==", b["tag"], tw)))
        rs = cs.cache.sets[s_].replacement_strategy
        e.claim("final-next-victim-s%d" % s_, cond("==", val(rs.get_next_to_replace()), ref.victim(s_)))
    e.claim("canary:deep", cond("==", cs.accesses, -1))


HARNESSES = {"step": h_step, "reset": h_reset, "prog": h_prog, "config": h_config, "reload": h_reload, "deep": h_deep}
PCFG = [("lru", 0, 0, 1), ("lru", 1, 0, 2), ("plru", 0, 1, 2)]


def jobs(tier, seed):
    from checks import c02

    out = []
    for (ib, bb, ways) in GEOS:
        if tier == "quick" and (ib, bb, ways) in ((1, 0, 2), (1, 1, 2)):
            continue  # the two largest geometries (thousands of paths each) are thorough-tier
        for repl in ("lru", "plru"):
            if repl == "plru" and ways == 1 and (ib, bb) != (0, 0):
                continue
            out.append({"label": "step-%s-i%db%dw%d" % (repl, ib, bb, ways), "harness": "step", "args": {"repl": repl, "ib": ib, "bb": bb, "ways": ways}, "cost": 10 * ways * (1 << ib), "validate_every": 3})
            out.append({"label": "reset-%s-i%db%dw%d" % (repl, ib, bb, ways), "harness": "reset", "args": {"repl": repl, "ib": ib, "bb": bb, "ways": ways}, "cost": 5, "validate_every": 5})
    out += cachestep.config_jobs("checks.c11")
    deep_plan = [((0, 0, 2), ["fffff", "ffRff", "fRfRf"]), ((0, 1, 1), ["fRff", "ffff"]), ((1, 0, 2), ["fff"]), ((0, 1, 2), ["ffRf"])]
    if tier != "quick":
        deep_plan = [((0, 0, 2), ["ffffff", "ffRfff", "fRfRff", "fffRff"]), ((0, 1, 1), ["fRfff", "fffff"]), ((1, 0, 2), ["fffff", "ffRff"]), ((0, 1, 2), ["ffRff", "fffff"]), ((0, 0, 4), ["ffffff"])]
    for (ib_, bb_, ways_), pats in deep_plan:
        for repl in ("lru", "plru"):
            if repl == "plru" and (ways_ & (ways_ - 1) or ways_ == 1):
                continue
            for pat in pats:
                out.append({"label": "deep-%s-i%db%dw%d-%s" % (repl, ib_, bb_, ways_, pat), "harness": "deep", "args": {"repl": repl, "ib": ib_, "bb": bb_, "ways": ways_, "ops": pat}, "cost": 30 * len(pat), "validate_every": 5})
    # sparse instruction memories (holes in front of / between the instructions of a block)
    for (ib_, bb_, ways_), masks in [((0, 1, 1), ["01", "10", "011"]), ((0, 1, 2), ["01", "101"])] + ([((0, 2, 1), ["0101", "0011", "0110"])] if tier != "quick" else [((0, 2, 1), ["0110"])]):
        for mk in masks:
            out.append({"label": "deep-sparse-lru-i%db%dw%d-%s" % (ib_, bb_, ways_, mk), "harness": "deep", "args": {"repl": "lru", "ib": ib_, "bb": bb_, "ways": ways_, "ops": "ffRf", "mask": mk}, "cost": 60, "validate_every": 5})
    n_ = 0
    for ia in range(len(RELOAD_PROGS)):
        for ib in range(len(RELOAD_PROGS)):
            for steps in (0, 3, 30):
                n_ += 1
                cfg = PCFG[n_ % len(PCFG)]
                mode = ["single_stage_pipeline", "five_stage_pipeline"][n_ % 2]
                out.append({"label": "reload-%d-%d-s%d" % (ia, ib, steps), "harness": "reload", "args": {"ia": ia, "ib": ib, "mode": mode, "cfg": list(cfg), "steps": steps}, "cost": 1, "validate": False})
    common = {"timeout_ms": 10000, "cut_on_undecided": True}
    i = 0
    for L in (1, 2):
        for sk in skeletons(ALPHABET, L):
            i += 1
            if L == 2 and (c02.heavy(sk, strict=True) or (tier == "quick" and (i + seed) % 6 != 0)):
                continue
            cfg = PCFG[i % len(PCFG)]
            out.append(dict(common, label="prog-%s-%s%d%d%d" % (",".join(sk), cfg[0], cfg[1], cfg[2], cfg[3]), harness="prog", args={"mnems": sk, "cfg": list(cfg)}, cost=10 * L, validate_every=3))
    for sk in (["add", "add", "jal"], ["addi", "beq", "add"], ["jal", "add", "add"], ["add", "add", "add", "jal"]):
        for cfg in PCFG:
            out.append(dict(common, label="prog-%s-%s%d%d%d" % (",".join(sk), cfg[0], cfg[1], cfg[2], cfg[3]), harness="prog", args={"mnems": sk, "cfg": list(cfg)}, cost=40, validate_every=5))
    return out


BUDGET = {"quick": None, "thorough": 12 * 60}

if __name__ == "__main__":
    from symx import runner
    import checks.c11 as me

    runner.main(me)
