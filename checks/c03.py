"""C03 Data cache is transparent: cached memory returns what flat memory would."""
from __future__ import annotations

from checks import cachestep

PROPERTY = "C03"
LEVEL = "model_checking"
TRUSTED = ["z3 5.1 QF_UFBV", "fixedint model (validated each run)", "the representation invariant and the logical-memory abstraction written in checks/cachestep.py"]
ASSUMPTIONS = [
    "one operation from an arbitrary cache state satisfying the representation invariant (dirty=>valid; valid clean blocks equal backing memory (write-through: all valid blocks); valid ways of a set have distinct tags; stored address consistent with set and tag; block base >= 2^14; LRU list is a permutation); the invariant is re-proved after the operation, so the claim extends to access histories of any length",
    "direct-to-lower-memory writes (parser preloads) are only claimed to bypass the counters (C09); their interaction with resident blocks is outside (they happen before the first cached access)",
    "addresses in [-2^32, 2^33]; miss penalty in [0,1000]",
    "history harness (independent of the invariant): 3 operations from a reset cache, addresses symbolic in a 16-byte window plus symbolic multiples of the cache size",
]
RULE = "one case = one feasible path of one cache operation (policy x replacement x geometry x operation) from a symbolic invariant state"
MAXTASKS = 30


def bounds(tier):
    return {"geometries(index_bits, block_bits, ways)": cachestep.geometries(tier), "operations": cachestep.OPS, "history": "1 operation from an arbitrary invariant state (inductive)"}


def h_step(e, **kw):
    return cachestep.h_step(e, **kw)


def h_history(e, **kw):
    return cachestep.h_history(e, **kw)


def h_prog(e, **kw):
    return cachestep.h_prog_dcache(e, **kw)


def h_deep(e, **kw):
    return cachestep.h_deep(e, **kw)


HARNESSES = {"step": h_step, "history": h_history, "prog": h_prog, "deep": h_deep}


def jobs(tier, seed):
    return cachestep.step_jobs(tier, {"C03"}, "checks.c03") + cachestep.history_jobs(tier, {"C03"}, "checks.c03") + cachestep.deep_jobs(tier, {"C03"}, "checks.c03") + cachestep.prog_jobs(tier, seed, {"C03"}, "checks.c03")


BUDGET = {"quick": None, "thorough": 12 * 60}

if __name__ == "__main__":
    from symx import runner
    import checks.c03 as me

    runner.main(me)
