"""One inductive step of the real data-cache memory systems from an arbitrary state satisfying the
representation invariant (shared by C03 transparency, C09 accounting, C12 backing-memory
consistency).  Every way of every set is symbolic: valid and dirty bits, tag, all block words,
the replacement state (LRU: any permutation, PLRU: any bits), the counters, the miss penalty and
the whole lower memory.  The operation's address, value, width and flags are symbolic."""
from __future__ import annotations

from symx.ops import zx, sx, cond, land, lor, lnot, ite, val, implies

DATA_MIN = 2**14
WIDTH_NAME = {1: "byte", 2: "halfword", 4: "word"}


def bterm(b):
    """formula of a (possibly lazy) bool leaf"""
    if isinstance(b, bool):
        return b
    if hasattr(b, "c"):
        return b.c if b._v is None else b._v
    return bool(b)


class Geo:
    def __init__(self, ib, bb, ways):
        self.ib, self.bb, self.ways = ib, bb, ways
        self.sets = 1 << ib
        self.words = 1 << bb
        self.shift = ib + bb + 2
        self.tagbits = 32 - self.shift

    def index(self, a):
        return (a >> (self.bb + 2)) & (self.sets - 1)

    def tag(self, a):
        return a >> self.shift

    def word_off(self, a):
        return (a >> 2) & (self.words - 1)


def mk_cache(e, kind, repl, g: Geo, tagname=""):
    """real cache memory system in an arbitrary Inv-state; returns (system, lower store, pm)"""
    from architecture_simulator.uarch.memory.memory import Memory, AddressingType
    from architecture_simulator.uarch.memory.write_back_memory_system import WriteBackMemorySystem
    from architecture_simulator.uarch.memory.write_through_memory_system import WriteThroughMemorySystem
    from architecture_simulator.uarch.memory.decoded_address import DecodedAddress
    from architecture_simulator.uarch.riscv.riscv_performance_metrics import RiscvPerformanceMetrics
    from symx.containers import Store, SymMem, SymRange
    from symx.state import fx
    from symx.core import LazyBool

    f = fx()
    lower = Memory(AddressingType.BYTE, 32, True, range(DATA_MIN, 2**32))
    store = Store(e, "M0" + tagname, 32, 8)
    lower.memory_file = SymMem(e, store, f.UInt8, total=True)
    if e.mode == "sym":
        lower.address_range = SymRange(DATA_MIN, 2**32)
    pm = RiscvPerformanceMetrics()
    pm.cycles = e.int("cycles0", 0, 10**6)
    penalty = e.int("penalty", 0, 1000)
    cls = WriteBackMemorySystem if kind == "wb" else WriteThroughMemorySystem
    cs = cls(memory=lower, num_index_bits=g.ib, num_block_bits=g.bb, associativity=g.ways, performance_metrics=pm, miss_penality=penalty, replacement_strategy=repl)
    cs.hits = e.int("hits0", 0, 1000)
    cs.accesses = e.int("accesses0", 0, 1000)
    cs.last_was_hit = e.bool("last0") if e.mode == "sym" else e.bool("last0")
    for s in range(g.sets):
        st = cs.cache.sets[s]
        for w in range(g.ways):
            b = st.blocks[w]
            n = "s%dw%d" % (s, w)
            b.valid_bit = e.bool("valid_" + n)
            b.dirty_bit = e.bool("dirty_" + n)
            tag = e.int("tag_" + n, 0, (1 << g.tagbits) - 1)
            b.decoded_address = DecodedAddress(g.ib, g.bb, (tag << g.shift) | (s << (g.bb + 2)))
            b.values = [f.UInt32(e.int("word_%s_%d" % (n, j), 0, 2**32 - 1)) for j in range(g.words)]
        rs = st.replacement_strategy
        if repl == "lru":
            xs = [e.int("lru_s%d_%d" % (s, i), 0, g.ways - 1) for i in range(g.ways)]
            for i in range(g.ways):
                for j in range(i + 1, g.ways):
                    e.assume(cond("!=", xs[i], xs[j]))
            rs.lru = xs
        else:
            rs.tree_array = [e.bool("plru_s%d_%d" % (s, i)) for i in range(g.ways - 1)]
    return cs, store, pm


def abstract_state(cs, g: Geo):
    """pure structure read off the real objects: per set/way (valid, dirty, tag, base, words) and
    the replacement state"""
    out = []
    for s in range(g.sets):
        st = cs.cache.sets[s]
        ways = []
        for w in range(g.ways):
            b = st.blocks[w]
            da = b.decoded_address
            ways.append(
                {
                    "valid": bterm(b.valid_bit),
                    "dirty": bterm(b.dirty_bit),
                    "tag": val(da.tag),
                    "index": val(da.cache_set_index),
                    "base": val(da.block_alinged_address),
                    "words": [val(x) for x in b.values],
                    "nwords": len(b.values),
                }
            )
        rs = st.replacement_strategy
        rep = ("lru", list(rs.lru)) if hasattr(rs, "lru") else ("plru", [bterm(x) for x in rs.tree_array])
        out.append({"ways": ways, "repl": rep})
    return out


def backing_word(store, base, j):
    a = base + 4 * j
    w = 0
    for i in range(4):
        w = w | (store.abstract(zx(a + i, 32)) << (8 * i))
    return w


def invariant(A, g: Geo, store, kind):
    """representation invariant as a formula over an abstract state"""
    cs = []
    for s in range(g.sets):
        ways = A[s]["ways"]
        for w, b in enumerate(ways):
            v, d = b["valid"], b["dirty"]
            cs.append(implies(d, v))
            cs.append(b["nwords"] == g.words)
            cs.append(implies(v, cond(">=", b["base"], DATA_MIN)))
            cs.append(implies(v, cond("==", b["index"], s)))
            cs.append(implies(v, cond("==", b["base"], (b["tag"] << g.shift) | (s << (g.bb + 2)))))
            clean = land(*[cond("==", b["words"][j], backing_word(store, b["base"], j)) for j in range(g.words)])
            if kind == "wb":
                cs.append(implies(land(v, lnot(d)), clean))
            else:
                cs.append(implies(v, clean))
            for w2 in range(w + 1, g.ways):
                b2 = ways[w2]
                cs.append(implies(land(v, b2["valid"]), cond("!=", b["tag"], b2["tag"])))
        kindr, rep = A[s]["repl"]
        if kindr == "lru":
            cs.append(len(rep) == g.ways)
            for b_ in range(g.ways):
                cs.append(lor(*[cond("==", x, b_) for x in rep]))
        else:
            cs.append(len(rep) == g.ways - 1)
    return cs


def resident(A, g: Geo, a):
    """[(condition, way dict)] over all sets/ways: block of byte address a is held by that way"""
    out = []
    idx, tag = g.index(a), g.tag(a)
    for s in range(g.sets):
        for w, b in enumerate(A[s]["ways"]):
            out.append((land(cond("==", idx, s), b["valid"], cond("==", b["tag"], tag)), s, w, b))
    return out


def logical_byte(A, g: Geo, store, a):
    """L(a): resident block byte if a's block is resident, else M(a)"""
    v = store.abstract(a)
    wo = g.word_off(a)
    sh = (a & 3) * 8
    for c, s, w, b in resident(A, g, a):
        if b["valid"] is False and len(b["words"]) < g.words:
            continue  # never-filled way of a reset cache
        word = b["words"][0]
        for j in range(1, g.words):
            word = ite(cond("==", wo, j), b["words"][j], word)
        v = ite(c, (word >> sh) & 0xFF, v)
    return v


def is_resident(A, g, a):
    return lor(*[c for c, s, w, b in resident(A, g, a)])


def plru_after(bits, n, idx):
    d = n.bit_length() - 1
    new = list(bits)
    for l in range(d):
        node = (1 << l) - 1 + (idx >> (d - l))
        direction = (idx >> (d - l - 1)) & 1
        new[node] = direction == 0
    return new


def plru_victim_formula(bits, n):
    """[(cond, way)]"""
    d = n.bit_length() - 1
    out = []
    for blk in range(n):
        cs = []
        for l in range(d):
            node = (1 << l) - 1 + (blk >> (d - l))
            direction = (blk >> (d - l - 1)) & 1
            cs.append(bits[node] if direction == 1 else lnot(bits[node]))
        out.append((land(*cs), blk))
    return out


def h_step(e, kind, repl, ib, bb, ways, op, nbytes, flag, props):
    """props: subset of {"C03","C09","C12"} - which claims to assert"""
    from architecture_simulator.util.integer_manipulation import ByteOffsetError
    from architecture_simulator.uarch.memory.memory import MemoryAddressError
    from symx.state import fx

    f = fx()
    g = Geo(ib, bb, ways)
    cs, store, pm = mk_cache(e, kind, repl, g)
    pre_store = store.fork()
    A0 = abstract_state(cs, g)
    for c in invariant(A0, g, pre_store, kind):
        e.assume(c)
    a = e.int("a", -(2**32), 2**33)
    a32 = zx(a, 32)
    hits0, acc0, cyc0, last0 = cs.hits, cs.accesses, pm.cycles, bterm(cs.last_was_hit)
    penalty = cs.miss_penality
    name = "%s_%s" % (op, WIDTH_NAME[nbytes])
    exc = None
    got = None
    if op == "write":
        v = e.int("v", 0, 2 ** (8 * nbytes) - 1)
        arg = getattr(f, "UInt%d" % (8 * nbytes))(v)
    try:
        if op == "read":
            got = getattr(cs, name)(a, flag)  # flag = update_statistics
        else:
            getattr(cs, name)(a, arg, flag)  # flag = directly_write_to_lower_memory
    except (ByteOffsetError, MemoryAddressError) as ex:
        exc = ex
    A1 = abstract_state(cs, g)
    qa = e.int("qa", 0, 2**32 - 1)
    L0 = logical_byte(A0, g, pre_store, qa)
    L1 = logical_byte(A1, g, store, qa)
    e.observe("exc", type(exc).__name__ if exc else None)
    e.observe("got", got)
    e.observe("L1[qa]", L1)
    e.observe("M1[qa]", store.abstract(qa))
    e.observe("counters", [cs.hits, cs.accesses, pm.cycles])
    crossing = cond(">", (a32 & 3) + nbytes, 4)
    low = cond("<", a32, DATA_MIN)
    direct = op == "write" and flag
    hit0 = is_resident(A0, g, a32)
    if "C03" in props:
        if not direct:
            e.claim("C03:rejected-iff-crossing-or-out-of-range", lor(crossing, low) if exc is not None else land(lnot(crossing), lnot(low)), {"exc": repr(exc)[:120]})
        if direct:
            pass
        elif exc is not None:
            e.claim_eq("C03:rejected-access-leaves-contents", L1, L0)
        elif op == "read":
            want = 0
            for i in range(nbytes):
                want = want | (logical_byte(A0, g, pre_store, zx(a32 + i, 32)) << (8 * i))
            e.claim_eq("C03:read-returns-flat-value", val(got), want)
            e.claim("canary:C03:read", cond("==", val(got), zx(want + 1, 8 * nbytes)))
            e.claim("C03:read-type", type(got).__name__ == "UInt%d" % (8 * nbytes))
            e.claim_eq("C03:read-leaves-contents", L1, L0)
        elif not direct:
            exp = L0
            for i in range(nbytes):
                exp = ite(cond("==", qa, zx(a32 + i, 32)), (v >> (8 * i)) & 0xFF, exp)
            e.claim_eq("C03:write-updates-contents", L1, exp)
            e.claim("canary:C03:write", cond("==", L1, L0))
        if not direct:
            inv1 = invariant(A1, g, store, kind)
            if not e.claim("C03:invariant-preserved", land(*inv1)):
                for i, c in enumerate(inv1):
                    e.claim("C03:invariant-preserved-%d" % i, c)
    if "C12" in props:
        if kind == "wt" and not direct:
            e.claim_eq("C12:wt-backing-memory-is-current", store.abstract(qa), L1)
            e.claim("canary:C12:wt", cond("==", store.abstract(qa), zx(L1 + 1, 8)))
            allw = []
            for s in range(g.sets):
                for w, b in enumerate(A1[s]["ways"]):
                    for j in range(g.words):
                        allw.append(("s%dw%dj%d" % (s, w, j), implies(b["valid"], cond("==", b["words"][j], backing_word(store, b["base"], j)))))
            if not e.claim("C12:wt-resident-words-equal-backing", land(*[c for _, c in allw])):
                for n_, c in allw:
                    e.claim("C12:wt-resident-word-equals-backing-" + n_, c)
        if kind == "wb" and not direct:
            e.claim("C12:wb-differs-only-where-resident", lor(cond("==", store.abstract(qa), L1), is_resident(A1, g, qa)))
            # no written value is lost: the logical contents are exactly the flat update (also across evictions)
            if exc is None and op == "write":
                exp = L0
                for i in range(nbytes):
                    exp = ite(cond("==", qa, zx(a32 + i, 32)), (v >> (8 * i)) & 0xFF, exp)
                e.claim_eq("C12:wb-no-lost-write", L1, exp)
            else:
                e.claim_eq("C12:wb-eviction-loses-nothing", L1, L0)
            e.claim("canary:C12:wb", cond("==", L1, zx(L0 + 1, 8)))
    if "C09" in props and exc is None:
        counted = (op == "read" and flag) or (op == "write" and not flag)
        if counted:
            e.claim_eq("C09:accesses+1", cs.accesses, acc0 + 1)
            e.claim_eq("C09:hits", cs.hits, hits0 + ite(hit0, 1, 0))
            e.claim("C09:last-hit-flag", _iff(bterm(cs.last_was_hit), hit0))
            e.claim_eq("C09:miss-penalty", pm.cycles, cyc0 + ite(hit0, 0, penalty))
            e.claim("canary:C09:accesses", cond("==", cs.accesses, acc0))
        else:
            e.claim_eq("C09:uncounted-accesses", cs.accesses, acc0)
            e.claim_eq("C09:uncounted-hits", cs.hits, hits0)
            e.claim("C09:uncounted-last-flag", _iff(bterm(cs.last_was_hit), last0))
            e.claim_eq("C09:uncounted-cycles", pm.cycles, cyc0)
            e.claim("canary:C09:uncounted", cond("==", cs.accesses, acc0 + 1))
        if not direct:
            _reference_post_state(e, kind, g, A0, A1, a32, op, hit0)


def _iff(x, y):
    if isinstance(x, bool) and isinstance(y, bool):
        return x == y
    import z3

    X = z3.BoolVal(x) if isinstance(x, bool) else x
    Y = z3.BoolVal(y) if isinstance(y, bool) else y
    return X == Y


def _reference_post_state(e, kind, g, A0, A1, a32, op, hit0):
    """reference set-associative cache: which way holds the accessed block afterwards, that the
    other ways are untouched, and the replacement state (victim choice + access update)"""
    idx, tag = g.index(a32), g.tag(a32)
    allocate = op == "read" or kind == "wb"
    acc = []
    for s in range(g.sets):
        in_set = cond("==", idx, s)
        ways0, ways1 = A0[s]["ways"], A1[s]["ways"]
        kindr, rep0 = A0[s]["repl"]
        _, rep1 = A1[s]["repl"]
        # untouched sets
        for w in range(g.ways):
            same = land(_iff(ways1[w]["valid"], ways0[w]["valid"]), implies(ways0[w]["valid"], cond("==", ways1[w]["tag"], ways0[w]["tag"])))
            acc.append(("C09:other-set-untouched-s%dw%d" % (s, w), lor(in_set, same)))
        # ... including their replacement state (every set has its own policy instance)
        rep_same = land(*[(cond("==", rep1[k], rep0[k]) if kindr == "lru" else _iff(rep1[k], rep0[k])) for k in range(len(rep0))])
        acc.append(("C09:other-set-policy-untouched-s%d" % s, lor(in_set, rep_same)))
        hitw = [land(ways0[w]["valid"], cond("==", ways0[w]["tag"], tag)) for w in range(g.ways)]
        anyhit = lor(*hitw)
        # victim under the configured policy
        if kindr == "lru":
            victim = [(cond("==", rep0[0], w), w) for w in range(g.ways)]
        else:
            victim = plru_victim_formula(rep0, g.ways)
        for w in range(g.ways):
            vic_w = [c for c, ww in victim if ww == w][0]
            target = lor(hitw[w], land(lnot(anyhit), vic_w)) if allocate else hitw[w]
            # the target way holds the accessed block afterwards
            acc.append(("C09:block-placed-s%dw%d" % (s, w), implies(land(in_set, target), land(ways1[w]["valid"], cond("==", ways1[w]["tag"], tag)))))
            # every other way keeps its block
            keep = land(_iff(ways1[w]["valid"], ways0[w]["valid"]), implies(ways0[w]["valid"], cond("==", ways1[w]["tag"], ways0[w]["tag"])))
            acc.append(("C09:other-way-kept-s%dw%d" % (s, w), implies(land(in_set, lnot(target)), keep)))
            # replacement state after informing the policy about way w
            if kindr == "lru":
                exp = [x for x in rep0]  # move w to the back
                conds = []
                # position p of w in rep0: list' = rep0 without position p, then w
                for p in range(g.ways):
                    at_p = cond("==", rep0[p], w)
                    lst = [rep0[k] for k in range(g.ways) if k != p] + [w]
                    conds.append(implies(at_p, land(*[cond("==", rep1[k], lst[k]) for k in range(g.ways)])))
                upd = land(*conds)
            else:
                expb = plru_after(rep0, g.ways, w)
                upd = land(*[_iff(rep1[k], expb[k]) for k in range(len(rep0))])
            acc.append(("C09:policy-informed-s%dw%d" % (s, w), implies(land(in_set, target), upd)))
        if not allocate:
            # write miss without allocation: replacement state untouched
            unchanged = land(*[(cond("==", rep1[k], rep0[k]) if kindr == "lru" else _iff(rep1[k], rep0[k])) for k in range(len(rep0))])
            acc.append(("C09:no-allocate-miss-keeps-policy-s%d" % s, implies(land(in_set, lnot(anyhit)), unchanged)))
    if not e.claim("C09:reference-cache-post-state", land(*[c for _, c in acc])):
        for n_, c in acc:
            e.claim(n_, c)


OPS = [("read", 1, True), ("read", 2, True), ("read", 4, True), ("read", 1, False), ("read", 2, False), ("read", 4, False),
       ("write", 1, False), ("write", 2, False), ("write", 4, False), ("write", 1, True), ("write", 4, True)]


def geometries(tier):
    if tier == "quick":
        return [(0, 0, 1), (1, 0, 2), (0, 1, 2)]
    # thorough: larger index/block fields, three ways (LRU only) and four ways
    return [(0, 0, 1), (1, 0, 2), (0, 1, 2), (1, 1, 1), (1, 1, 2), (2, 0, 1), (0, 2, 1), (1, 0, 3), (0, 0, 4)]


def step_jobs(tier, props, module):
    out = []
    for (ib, bb, ways) in geometries(tier):
        for kind in ("wb", "wt"):
            for repl in ("lru", "plru"):
                if repl == "plru" and ways & (ways - 1):
                    continue
                if repl == "plru" and ways == 1 and (ib, bb) != (0, 0):
                    continue
                for (op, n, flag) in OPS:
                    size = (1 << ib) * ways * (1 << bb)
                    out.append(
                        {
                            "label": "%s-%s-i%db%dw%d-%s%d%s" % (kind, repl, ib, bb, ways, op, n, "f" if flag else ""),
                            "module": module,
                            "harness": "step",
                            "args": {"kind": kind, "repl": repl, "ib": ib, "bb": bb, "ways": ways, "op": op, "nbytes": n, "flag": flag, "props": sorted(props)},
                            "cost": size * size * (3 if kind == "wt" else 1),
                            "validate_every": 1 if size <= 2 else 5,
                            "timeout_ms": 20000,
                            "optional": tier == "thorough" and (ways >= 3 or size >= 8),
                        }
                    )
    return out


# ---------------------------------------------------------------------------------------------------
# deep histories from a reset cache against an executable reference cache: k counted word accesses
# whose set and tag are symbolic (tags from a domain one larger than the associativity, so hits,
# fills and evictions in every order are paths).  Independent of the representation invariant and
# of whatever private state the implementation keeps next to the blocks (memoised look-ups, "last
# accessed" shortcuts): everything is observed through the public entry points and counters.
# ---------------------------------------------------------------------------------------------------


class RefCache:
    """Set-associative reference cache: write-back + write-allocate or write-through +
    no-write-allocate; LRU (least recently used way, never-used ways first in index order) or
    tree PLRU.  Tags may be symbolic ints: comparisons fork (they are implied by the decisions the
    implementation already took on the path, or reveal a path the implementation merged)."""

    def __init__(self, g: Geo, repl, write_allocate):
        self.g, self.repl, self.wa = g, repl, write_allocate
        self.tags = [[None] * g.ways for _ in range(g.sets)]
        self.order = [list(range(g.ways)) for _ in range(g.sets)]  # front = next victim
        self.bits = [[0] * max(g.ways - 1, 0) for _ in range(g.sets)]

    def _touch(self, s, w):
        if self.repl == "lru":
            self.order[s].remove(w)
            self.order[s].append(w)
        else:
            n, bits = self.g.ways, self.bits[s]
            node, lo, hi = 0, 0, n
            while hi - lo > 1:
                mid = (lo + hi) // 2
                if w < mid:
                    bits[node] = 1  # accessed left: point right
                    node, hi = 2 * node + 1, mid
                else:
                    bits[node] = 0
                    node, lo = 2 * node + 2, mid

    def victim(self, s):
        if self.repl == "lru":
            return self.order[s][0]
        n, bits = self.g.ways, self.bits[s]
        node, lo, hi = 0, 0, n
        while hi - lo > 1:
            mid = (lo + hi) // 2
            if bits[node]:
                node, lo = 2 * node + 2, mid
            else:
                node, hi = 2 * node + 1, mid
        return lo

    def access(self, s, t, is_write):
        """-> (hit, filled_way or None)"""
        for w in range(self.g.ways):
            tw = self.tags[s][w]
            if tw is not None and bool(tw == t):
                self._touch(s, w)
                return True, None
        if is_write and not self.wa:
            return False, None
        w = self.victim(s)
        self.tags[s][w] = t
        self._touch(s, w)
        return False, w


def h_deep(e, kind, repl, ib, bb, ways, ops, props):
    """ops: string over r (counted word read) / w (word write) / i (uncounted word read)."""
    from architecture_simulator.uarch.memory.memory import Memory, AddressingType
    from architecture_simulator.uarch.memory.write_back_memory_system import WriteBackMemorySystem
    from architecture_simulator.uarch.memory.write_through_memory_system import WriteThroughMemorySystem
    from architecture_simulator.uarch.riscv.riscv_performance_metrics import RiscvPerformanceMetrics
    from symx.containers import Store, SymMem, SymRange
    from symx.state import fx

    f = fx()
    g = Geo(ib, bb, ways)
    lower = Memory(AddressingType.BYTE, 32, True, range(DATA_MIN, 2**32))
    store = Store(e, "M0", 32, 8)
    flat = store.fork()
    lower.memory_file = SymMem(e, store, f.UInt8, total=True)
    if e.mode == "sym":
        lower.address_range = SymRange(DATA_MIN, 2**32)
    pm = RiscvPerformanceMetrics()
    penalty = e.int("penalty", 0, 1000)
    cls = WriteBackMemorySystem if kind == "wb" else WriteThroughMemorySystem
    cs = cls(memory=lower, num_index_bits=g.ib, num_block_bits=g.bb, associativity=g.ways, performance_metrics=pm, miss_penality=penalty, replacement_strategy=repl)
    ref = RefCache(g, repl, write_allocate=(kind == "wb"))
    tag0 = DATA_MIN >> g.shift
    ntags = ways + 1
    for k, op in enumerate(ops):
        if op == "R":
            # reset of the memory system (what a program reload does): cache empty, lower memory
            # empty (every byte reads 0), nothing of the earlier history may resurface
            cs.reset()
            store = Store(e, "Z%d" % k, 32, 8, zero_init=True)
            flat = store.fork()
            cs.memory.memory_file = SymMem(e, store, f.UInt8, total=True)
            ref = RefCache(g, repl, write_allocate=(kind == "wb"))
            continue
        t = e.int("t%d" % k, 0, ntags - 1)
        sidx = e.concretize(e.int("s%d" % k, 0, g.sets - 1)) if g.sets > 1 else 0
        woff = e.concretize(e.int("o%d" % k, 0, g.words - 1)) if g.words > 1 else 0
        a = ((tag0 + 1 + t) << g.shift) | (sidx << (g.bb + 2)) | (woff << 2)
        h0, a0, c0 = cs.hits, cs.accesses, pm.cycles
        if op == "w":
            v = e.int("v%d" % k, 0, 2**32 - 1)
            cs.write_word(a, f.UInt32(v))
            for i in range(4):
                flat.set(a + i, (v >> (8 * i)) & 0xFF)
            got = None
        else:
            got = cs.read_word(a, op == "r")
            want = 0
            for i in range(4):
                want = want | (flat.abstract(a + i) << (8 * i))
            if "C03" in props:
                e.claim_eq("C03:d%d-read-returns-flat-value" % k, val(got), want)
            e.observe("got%d" % k, got)
        if op == "i":
            # inspection read: no counter, no cycle; the reference cache sees it like a read
            # (the block is fetched and the policy informed, as the implementation documents)
            if "C09" in props:
                e.claim_eq("C09:d%d-uncounted" % k, [cs.accesses, cs.hits, pm.cycles], [a0, h0, c0])
            ref.access(sidx, t, False)
            continue
        hit, _ = ref.access(sidx, t, op == "w")
        e.observe("hit%d" % k, val(cs.hits) - val(h0))
        if "C09" in props:
            e.claim_eq("C09:d%d-accesses+1" % k, cs.accesses, a0 + 1)
            e.claim_eq("C09:d%d-hit-as-reference" % k, cs.hits, h0 + (1 if hit else 0))
            e.claim("C09:d%d-last-was-hit" % k, bool(cs.last_was_hit) == hit)
            e.claim_eq("C09:d%d-penalty-iff-miss" % k, pm.cycles, c0 if hit else c0 + penalty)
    # final residency and replacement state against the reference
    A = abstract_state(cs, g)
    for s_ in range(g.sets):
        for w in range(g.ways):
            tw = ref.tags[s_][w]
            b = A[s_]["ways"][w]
            for P in ("C09", "C10"):
                if P in props:
                    if tw is None:
                        e.claim("%s:final-way-empty-s%dw%d" % (P, s_, w), lnot(b["valid"]))
                    else:
                        e.claim("%s:final-way-holds-reference-block-s%dw%d" % (P, s_, w), land(b["valid"], cond("==", b["tag"], tag0 + 1 + tw)))
        rs = cs.cache.sets[s_].replacement_strategy
        for P in ("C09", "C10"):
            if P in props:
                e.claim("%s:final-next-victim-s%d" % (P, s_), cond("==", val(rs.get_next_to_replace()), ref.victim(s_)))
                if repl == "lru":
                    e.claim("%s:final-lru-order-s%d" % (P, s_), land(*[cond("==", x, y) for x, y in zip(list(rs.lru), ref.order[s_])]))
                else:
                    e.claim("%s:final-plru-bits-s%d" % (P, s_), land(*[_iff(bterm(x), bool(y)) for x, y in zip(rs.tree_array, ref.bits[s_])]))
    for P in ("C09", "C10"):
        if P in props:
            e.claim("canary:%s:deep" % P, cond("==", cs.accesses, -1))
    if "C03" in props:
        e.claim("canary:C03:deep", cond("==", cs.accesses, -1))
    if "C12" in props:
        qb = e.int("qb", 0, 2**32 - 1)
        if kind == "wt":
            e.claim_eq("C12:deep-wt-backing-current", store.abstract(qb), flat.abstract(qb))
            for s_ in range(g.sets):
                for w in range(g.ways):
                    b = A[s_]["ways"][w]
                    if b["valid"] is False and len(b["words"]) < g.words:
                        continue  # never-filled way
                    for j in range(g.words):
                        e.claim("C12:deep-wt-resident-block-equals-backing-s%dw%d_%d" % (s_, w, j), lor(lnot(b["valid"]), cond("==", b["words"][j], backing_word(store, b["base"], j))))
        else:
            e.claim("C12:deep-wb-backing-differs-only-where-resident", lor(cond("==", store.abstract(qb), flat.abstract(qb)), is_resident(A, g, qb)))
            # nothing written was lost: the logical contents (resident block, else backing) are the flat ones
            e.claim_eq("C12:deep-wb-no-written-value-lost", logical_byte(A, g, store, qb), flat.abstract(qb))
        e.claim("canary:C12:deep", cond("!=", store.abstract(qb), store.abstract(qb)))


def deep_jobs(tier, props, module):
    out = []
    if tier == "quick":
        plan = [((0, 0, 2), ["rrrrr", "rwrrw", "wrirr", "rrwwr", "wwRrw"]), ((1, 0, 2), ["rrrr", "wrrw"]), ((0, 1, 2), ["rwrr", "wRrw"]), ((0, 0, 4), ["rrrrr"]), ((0, 0, 1), ["wRrwr", "wrRwr", "iiRrr"]), ((0, 1, 1), ["iRrr"])]
    else:
        import itertools

        all5 = ["".join(t) for t in itertools.product("rw", repeat=5)] + ["rirrr", "wrirr", "rwiwr", "rriwr", "wwRrw", "wRwrr", "rwRwr", "wwRww", "iiRrr", "iRrwr"]
        plan = [((0, 0, 2), all5 + ["rrrrrr", "rwrrwr", "wrrwrr"]), ((1, 0, 2), ["rrrrr", "wrrwr", "rwrwr"]), ((0, 1, 2), ["rwrrr", "rrrwr"]), ((0, 0, 4), ["rrrrrr", "rwrrwr"]), ((0, 0, 3), ["rrrrr"])]
    core = set()
    if tier != "quick":
        core = {j["label"] for j in deep_jobs("quick", props, module)}
    for (ib, bb, ways), pats in plan:
        for kind in ("wb", "wt"):
            for repl in ("lru", "plru"):
                if repl == "plru" and ways & (ways - 1):
                    continue
                for pat in pats:
                    label = "deep-%s-%s-i%db%dw%d-%s" % (kind, repl, ib, bb, ways, pat)
                    extra = tier != "quick" and label not in core
                    out.append(
                        {
                            "label": label,
                            "module": module,
                            "harness": "deep",
                            "args": {"kind": kind, "repl": repl, "ib": ib, "bb": bb, "ways": ways, "ops": pat, "props": sorted(props)},
                            "cost": (30 * ways * len(pat)) if not extra else 4,
                            "validate_every": 5,
                            "timeout_ms": 20000,
                            # thorough tier: the patterns beyond the quick plan are best effort (started
                            # while the tier's budget lasts; what was not reached is in the evidence)
                            "optional": extra,
                        }
                    )
    if tier != "quick":
        have = {j["label"] for j in out}
        out += [j for j in deep_jobs("quick", props, module) if j["label"] not in have]
    return out


# ---------------------------------------------------------------------------------------------------
# bounded histories from a reset cache (no invariant assumed): k operations with symbolic
# addresses/values next to a flat reference memory and a reference cache for the accounting
# ---------------------------------------------------------------------------------------------------


def h_history(e, kind, repl, ib, bb, ways, ops, props, window=16):
    """ops: list of (op, nbytes, flag).  Addresses are symbolic inside a window of `window` bytes
    above 2^14 plus a symbolic multiple of the cache size (so conflicts, hits and evictions all
    occur); lower memory initially arbitrary (total symbolic store)."""
    from architecture_simulator.uarch.memory.memory import Memory, AddressingType, MemoryAddressError
    from architecture_simulator.uarch.memory.write_back_memory_system import WriteBackMemorySystem
    from architecture_simulator.uarch.memory.write_through_memory_system import WriteThroughMemorySystem
    from architecture_simulator.uarch.riscv.riscv_performance_metrics import RiscvPerformanceMetrics
    from architecture_simulator.util.integer_manipulation import ByteOffsetError
    from symx.containers import Store, SymMem, SymRange
    from symx.state import fx

    f = fx()
    g = Geo(ib, bb, ways)
    lower = Memory(AddressingType.BYTE, 32, True, range(DATA_MIN, 2**32))
    store = Store(e, "M0", 32, 8)
    flat = store.fork()
    lower.memory_file = SymMem(e, store, f.UInt8, total=True)
    if e.mode == "sym":
        lower.address_range = SymRange(DATA_MIN, 2**32)
    pm = RiscvPerformanceMetrics()
    penalty = e.int("penalty", 0, 1000)
    cls = WriteBackMemorySystem if kind == "wb" else WriteThroughMemorySystem
    cs = cls(memory=lower, num_index_bits=g.ib, num_block_bits=g.bb, associativity=g.ways, performance_metrics=pm, miss_penality=penalty, replacement_strategy=repl)
    size = g.sets * g.words * 4
    # reference cache (timestamps): per set list of (tag, last_use) ; explicit small model
    ref_sets = [[] for _ in range(g.sets)]  # entries: [tag, way] in LRU order (front = oldest) - only used for lru
    hits = acc = 0
    misses_pen = 0
    for k, (op, n, flag) in enumerate(ops):
        off = e.int("off%d" % k, 0, window - 1)
        mul = e.int("mul%d" % k, 0, 3)
        a = DATA_MIN + off + mul * size * (1 if k % 2 == 0 else ways)
        name = "%s_%s" % (op, WIDTH_NAME[n])
        exc = None
        got = None
        h0, a0, c0 = cs.hits, cs.accesses, pm.cycles
        if op == "write":
            v = e.int("v%d" % k, 0, 2 ** (8 * n) - 1)
        try:
            if op == "read":
                got = getattr(cs, name)(a, flag)
            else:
                getattr(cs, name)(a, getattr(f, "UInt%d" % (8 * n))(v), flag)
        except (ByteOffsetError, MemoryAddressError) as ex:
            exc = ex
        crossing = (val(a) & 3) + n > 4
        if "C03" in props:
            e.claim("C03:h%d-rejected-iff-crossing" % k, (exc is not None) == bool(crossing), {"exc": repr(exc)[:100]})
        if exc is None:
            if op == "read":
                want = 0
                for i in range(n):
                    want = want | (flat.abstract(a + i) << (8 * i))
                if "C03" in props:
                    e.claim_eq("C03:h%d-read-returns-flat-value" % k, val(got), want)
                e.observe("got%d" % k, got)
            else:
                for i in range(n):
                    flat.set(a + i, (v >> (8 * i)) & 0xFF)
        counted = (op == "read" and flag) or (op == "write" and not flag)
        if "C09" in props and exc is None:
            if counted:
                e.claim_eq("C09:h%d-accesses+1" % k, cs.accesses, a0 + 1)
                e.claim("C09:h%d-hit-xor-penalty" % k, lor(land(cond("==", cs.hits, h0 + 1), cond("==", pm.cycles, c0)), land(cond("==", cs.hits, h0), cond("==", pm.cycles, c0 + penalty))))
            else:
                e.claim_eq("C09:h%d-uncounted" % k, [cs.accesses, cs.hits, pm.cycles], [a0, h0, c0])
        if "C12" in props and kind == "wt":
            qa_k = e.int("qa%d" % k, 0, 2**32 - 1)
            e.claim_eq("C12:h%d-wt-backing-current" % k, store.abstract(qa_k), flat.abstract(qa_k))
    # final: every byte read through the cache equals the flat memory (uncounted inspection reads)
    qa = DATA_MIN + e.int("qoff", 0, window - 1) + e.int("qmul", 0, 3) * size
    final = cs.read_byte(qa, False)
    e.observe("final", final)
    if "C03" in props:
        e.claim_eq("C03:final-read-equals-flat", val(final), flat.abstract(qa))
        e.claim("canary:C03:final", cond("==", val(final), zx(flat.abstract(qa) + 1, 8)))
    if "C12" in props and kind == "wb":
        A = abstract_state(cs, g)
        qb = e.int("qb", 0, 2**32 - 1)
        e.claim("C12:wb-backing-differs-only-where-resident", lor(cond("==", store.abstract(qb), flat.abstract(qb)), is_resident(A, g, qb)))
        e.claim("canary:C12:wb-final", cond("!=", store.abstract(qb), store.abstract(qb)))
    if "C09" in props:
        e.claim("canary:C09:history", cond("==", cs.accesses, -1))


HIST_OPS = {
    "r": ("read", 4, True),
    "rb": ("read", 1, True),
    "rh": ("read", 2, True),
    "ru": ("read", 4, False),
    "w": ("write", 4, False),
    "wb": ("write", 1, False),
    "wh": ("write", 2, False),
}


def history_jobs(tier, props, module):
    import itertools

    out = []
    geos = [(0, 0, 1), (1, 0, 1), (0, 0, 2)] if tier == "quick" else [(0, 0, 1), (1, 0, 1), (0, 0, 2), (0, 1, 2), (1, 1, 2)]
    alpha = ["r", "w", "wh", "rb", "ru"] if tier == "quick" else list(HIST_OPS)
    k = 3
    seqs = [list(t) for t in itertools.product(alpha, repeat=k)]
    for (ib, bb, ways) in geos:
        for kind in ("wb", "wt"):
            for repl in ("lru", "plru"):
                if repl == "plru" and (ways & (ways - 1) or ways == 1 and (ib, bb) != (0, 0)):
                    continue
                for i, sq in enumerate(seqs):
                    if tier == "quick" and i % 10 != (ib + bb + ways) % 10:
                        continue
                    if not any(x.startswith("w") for x in sq):
                        continue
                    best_effort = tier != "quick" and i % 10 != (ib + bb + ways) % 10
                    out.append(
                        {
                            "label": "hist-%s-%s-i%db%dw%d-%s" % (kind, repl, ib, bb, ways, ".".join(sq)),
                            "module": module,
                            "harness": "history",
                            "args": {"kind": kind, "repl": repl, "ib": ib, "bb": bb, "ways": ways, "ops": [list(HIST_OPS[x]) for x in sq], "props": sorted(props)},
                            "cost": 5 if not best_effort else 3,
                            "validate_every": 7,
                            "timeout_ms": 20000,
                            "cut_on_undecided": True,
                            "optional": best_effort,
                        }
                    )
    return out


# ---------------------------------------------------------------------------------------------------
# program-level clauses: bounded symbolic programs with a data cache in both pipeline modes
# ---------------------------------------------------------------------------------------------------

DCFG = [("wb", "lru", 0, 0, 1), ("wt", "lru", 1, 0, 2), ("wb", "plru", 0, 1, 2), ("wt", "plru", 0, 0, 2)]
MEM_OPS = {"lw", "lb", "sw", "sb", "lh", "lhu", "lbu", "sh"}  # every load/store class


def h_prog_dcache(e, mnems, cfg, props):
    """uncached single-cycle run vs cached single-cycle and cached five-stage runs of the same
    symbolic program: C03 results identical; C09 counters identical in both modes, one access per
    executed load/store, every step advances the cycle counter by 1 + penalty x misses"""
    from checks import progs
    from checks.c02 import compare_final
    from symx.state import mk_riscv, place_instructions, cache_options
    from architecture_simulator.simulation.runtime_errors import InstructionExecutionException

    kind, repl, ib, bb, ways = cfg
    K = progs.k_for(len(mnems))
    penalty = e.int("penalty", 0, 1000)
    items, fields = progs.build_program(e, mnems)
    dc = cache_options(True, ib, bb, ways, kind, repl, 0)
    c5 = mk_riscv(e, mode="five_stage_pipeline", dcache=dc)
    c1 = mk_riscv(e, mode="single_stage_pipeline", dcache=dc)
    c0 = mk_riscv(e, mode="single_stage_pipeline")
    for c in (c1, c5):
        c.sim.state.memory.miss_penality = penalty
    for c in (c0, c1, c5):
        place_instructions(e, c, items)
    # word-crossing accesses are rejected by the cache (C03 statement) and are outside the
    # program clause: observed at the cache system's own entry points
    from architecture_simulator.util.integer_manipulation import ByteOffsetError

    rejected = []

    def watch(ms):
        for nm in ("read_byte", "read_halfword", "read_word", "write_byte", "write_halfword", "write_word"):
            orig = getattr(ms, nm)

            def w(*a, _o=orig, **k):
                try:
                    return _o(*a, **k)
                except ByteOffsetError:
                    rejected.append(nm)
                    raise

            setattr(ms, nm, w)

    watch(c1.sim.state.memory)
    watch(c5.sim.state.memory)
    mnem_of = {id(ins): m for (a, ins), m in zip(items, mnems)}
    pm5, m5 = c5.sim.state.performance_metrics, c5.sim.state.memory
    st5 = {"cycles": 0, "acc": 0, "hits": 0}
    cyc_checks = []

    def on5(sim, r):
        d_acc, d_hit = m5.accesses - st5["acc"], m5.hits - st5["hits"]
        cyc_checks.append((pm5.cycles, st5["cycles"] + 1 + penalty * (d_acc - d_hit)))
        st5.update(cycles=pm5.cycles, acc=m5.accesses, hits=m5.hits)

    s5 = progs.run_five(e, c5, progs.cycle_bound(K), on_step=on5, K=K)
    memops1 = []

    def on1(sim, r):
        pr = sim.state.pipeline.pipeline_registers[0]
        if mnem_of.get(id(pr.instruction)) in MEM_OPS:
            memops1.append(1)

    s1 = progs.run_single(e, c1, K, on_step=on1)
    s0 = progs.run_single(e, c0, K)
    unaligned = bool(rejected)
    e.observe("unaligned", unaligned)
    if unaligned:
        return "unaligned access: rejected by the cache, outside the program clause"
    if "C03" in props:
        # data memory as the program sees it: the cached value where the block is resident
        # (under write-back the backing memory may lag there, C12), else the backing memory
        g_ = Geo(ib, bb, ways)
        compare_final(e, s0, s5, mem5=lambda qa_: logical_byte(abstract_state(m5, g_), g_, c5.mem_store, qa_))
        q = e.int("q1", 0, 31)
        e.claim_eq("C03:single-cycle-cached==uncached:registers", c1.reg(q), c0.reg(q))
        e.claim_eq("C03:single-cycle-cached==uncached:output", c1.sim.state.output, c0.sim.state.output)
        e.claim_eq("C03:single-cycle-cached==uncached:exit", c1.sim.state.exit_code, c0.sim.state.exit_code)
        e.claim("C03:single-cycle-cached==uncached:fault", (s1.fault is None) == (s0.fault is None))
        qm = e.int("qm", 0, 2**32 - 1)
        m1_ = c1.sim.state.memory
        e.claim_eq("C03:single-cycle-cached==uncached:memory", logical_byte(abstract_state(m1_, g_), g_, c1.mem_store, qm), c0.mem_byte(qm))
    if "C02" in props:
        g3 = Geo(ib, bb, ways)
        m1c = c1.sim.state.memory
        compare_final(e, s1, s5, mem5=lambda qa_: logical_byte(abstract_state(m5, g3), g3, c5.mem_store, qa_), mem1=lambda qa_: logical_byte(abstract_state(m1c, g3), g3, c1.mem_store, qa_))
    if "C12" in props and s1.fault is None and s5.fault is None and not s5.nonterminating:
        # the C12 state relation at the end of a program, in both modes, and nothing written lost
        g2 = Geo(ib, bb, ways)
        qc = e.int("qc", 0, 2**32 - 1)
        for tag_, c_ in (("single", c1), ("five", c5)):
            A_ = abstract_state(c_.sim.state.memory, g2)
            L_ = logical_byte(A_, g2, c_.mem_store, qc)
            if kind == "wt":
                e.claim_eq("C12:%s:wt-backing-memory-is-current" % tag_, c_.mem_store.abstract(qc), L_)
                allw = [implies(b["valid"], cond("==", b["words"][j], backing_word(c_.mem_store, b["base"], j))) for s_ in range(g2.sets) for b in A_[s_]["ways"] if len(b["words"]) >= g2.words for j in range(g2.words)]
                e.claim("C12:%s:wt-resident-words-equal-backing" % tag_, land(*allw) if allw else True)
            else:
                e.claim("C12:%s:wb-differs-only-where-resident" % tag_, lor(cond("==", c_.mem_store.abstract(qc), L_), is_resident(A_, g2, qc)))
            e.claim_eq("C12:%s:no-written-value-lost" % tag_, L_, c0.mem_byte(qc))
        e.claim("canary:C12:prog", cond("==", c0.mem_byte(qc), zx(c0.mem_byte(qc) + 1, 8)))
    if "C09" in props and s1.fault is None and s5.fault is None and not s5.nonterminating:
        m1 = c1.sim.state.memory
        e.claim("C09:one-access-per-executed-load-or-store", m1.accesses == len(memops1), {"accesses": m1.accesses, "memory_instructions": len(memops1)})
        e.claim("C09:same-accesses-in-both-modes", m5.accesses == m1.accesses, {"five": m5.accesses, "single": m1.accesses})
        e.claim("C09:same-hits-in-both-modes", m5.hits == m1.hits, {"five": m5.hits, "single": m1.hits})
        e.claim("C09:same-last-hit-flag", bool(m5.last_was_hit) == bool(m1.last_was_hit))
        for i, (got, want) in enumerate(cyc_checks):
            e.claim_eq("C09:cycle-advances-by-1-plus-penalties-step%d" % i, got, want)
        pm1 = c1.sim.state.performance_metrics
        e.claim_eq("C09:single-cycle-cycles", pm1.cycles, len(s1.retired) + penalty * (m1.accesses - m1.hits))
        e.claim("canary:C09:prog", m1.accesses == len(memops1) + 1)
    if "C03" in props:
        e.claim("canary:C03:prog", cond("==", c1.reg(e.int("q2", 0, 31)), -1))


def prog_jobs(tier, seed, props, module):
    from checks import c02
    from checks.progs import ALPHABET, skeletons

    out = []
    common = {"timeout_ms": 10000, "cut_on_undecided": True, "module": module, "harness": "prog"}
    i = 0
    memset = {"lw", "lb", "sw", "sb"}
    for L in (1, 2):
        for sk in skeletons(ALPHABET, L):
            if not (set(sk) & memset):
                continue
            i += 1
            if L == 2 and (c02.heavy(sk, strict=True) or (tier == "quick" and (i + seed) % 4 != 0)):
                continue
            cfg = DCFG[i % len(DCFG)]
            out.append(dict(common, label="prog-%s-%s" % (",".join(sk), "".join(map(str, cfg))), args={"mnems": sk, "cfg": list(cfg), "props": sorted(props)}, cost=15 * L, validate_every=3))
    for m_ in ("lb", "lh", "lw", "lbu", "lhu", "sb", "sh", "sw"):
        for ci, cfg in enumerate(DCFG[:2]):
            out.append(dict(common, label="prog1-%s-%s" % (m_, "".join(map(str, cfg))), args={"mnems": [m_], "cfg": list(cfg), "props": sorted(props)}, cost=8, validate_every=2))
    # a store of every width onto a block made resident by the preceding access
    for first in ("lw", "sw"):
        for st_ in ("sb", "sh", "sw"):
            for ci, cfg in enumerate(DCFG[:2]):
                lab = "prog-%s,%s-%s" % (first, st_, "".join(map(str, cfg)))
                if any(j["label"] == lab for j in out):
                    continue
                out.append(dict(common, label=lab, args={"mnems": [first, st_], "cfg": list(cfg), "props": sorted(props)}, cost=20, validate_every=3))
    for sk in (["sw", "sw", "lb"],) if tier == "quick" else (["sw", "lw", "lw"], ["sb", "lw", "beq"], ["lw", "sw", "jal"], ["sw", "sw", "lb"]):
        for cfg in DCFG[:2] if tier == "quick" else DCFG:
            out.append(dict(common, label="prog-%s-%s" % (",".join(sk), "".join(map(str, cfg))), args={"mnems": sk, "cfg": list(cfg), "props": sorted(props)}, cost=60, validate_every=5, optional=True))
    return out


# ---------------------------------------------------------------------------------------------------
# configuration plumbing: every cache gets exactly its own configured geometry, policy and penalty
# ---------------------------------------------------------------------------------------------------


def h_config(e, mode, d, i):
    """d, i: (enable, index_bits, block_bits, ways, kind, repl, penalty) for data / instruction cache"""
    from architecture_simulator.simulation.riscv_simulation import RiscvSimulation
    from symx.state import cache_options

    sim = RiscvSimulation(mode=mode, data_cache=cache_options(*d), instruction_cache=cache_options(*i))
    st = sim.state

    def describe(cs):
        if not hasattr(cs, "cache"):
            return None
        rs = cs.cache.sets[0].replacement_strategy
        return {
            "class": type(cs).__name__,
            "sets": len(cs.cache.sets),
            "words": cs.cache.num_words_in_block,
            "ways": len(cs.cache.sets[0].blocks),
            "policy": type(rs).__name__,
            "penalty": cs.miss_penality,
            "shares_metrics": cs.performance_metrics is st.performance_metrics,
        }

    def want(o, is_data):
        en, ib, bb, ways, kind, repl, pen = o
        if not en:
            return None
        cls = ("WriteThroughMemorySystem" if kind == "wt" else "WriteBackMemorySystem") if is_data else "InstructionMemoryCacheSystem"
        return {"class": cls, "sets": 1 << ib, "words": 1 << bb, "ways": ways, "policy": "LRU" if repl == "lru" else "PLRU", "penalty": pen, "shares_metrics": True}

    gd, gi = describe(st.memory), describe(st.instruction_memory)
    e.observe("data", gd)
    e.observe("instr", gi)
    e.claim("data-cache-as-configured", gd == want(d, True), {"got": gd, "want": want(d, True)})
    e.claim("instruction-cache-as-configured", gi == want(i, False), {"got": gi, "want": want(i, False)})
    e.claim("canary:config", gd == {"x": 1})


def config_jobs(module):
    import itertools

    out = []
    opts = [(False, 0, 0, 1, "wb", "lru", 0), (True, 1, 0, 4, "wb", "lru", 3), (True, 0, 1, 4, "wt", "plru", 5), (True, 2, 2, 2, "wb", "plru", 7), (True, 0, 0, 3, "wt", "lru", 1)]
    for k, (d, i) in enumerate(itertools.product(opts, opts)):
        mode = ["single_stage_pipeline", "five_stage_pipeline"][k % 2]
        out.append({"label": "config-%d" % k, "module": module, "harness": "config", "args": {"mode": mode, "d": list(d), "i": list(i)}, "cost": 1, "validate": False})
    return out
