"""Symbolic containers placed into real repository objects (state construction only).

Store      write log of terms over an uninterpreted initial content function (no array theory,
           no forks on reads); used for register files and memories. Concrete twin included.
SymMem     dict-like for Memory.memory_file (total or presence variant)
SymRegs    list-like mixed under the real `Registers` class (its x0 logic keeps running)
SymKeyDict dict with symbolic lookup keys (instruction memory)
SymRange   range-like with symbolic membership test
"""
from __future__ import annotations

import builtins

import z3

from . import core
from .core import SymInt, EngineUnsupported, need_bits


_HEAVY_KINDS = {z3.Z3_OP_BMUL, z3.Z3_OP_BSDIV, z3.Z3_OP_BUDIV, z3.Z3_OP_BSREM, z3.Z3_OP_BUREM, z3.Z3_OP_BSMOD,
                z3.Z3_OP_BSDIV_I, z3.Z3_OP_BUDIV_I, z3.Z3_OP_BSREM_I, z3.Z3_OP_BUREM_I, z3.Z3_OP_BSMOD_I}
_HEAVY_MEMO: dict = {}


def is_heavy(t) -> bool:
    """does the term contain a multiplication/division of two non-constant operands?"""
    if len(_HEAVY_MEMO) > 200000:
        _HEAVY_MEMO.clear()
    todo = [t]
    seen = set()
    n = 0
    while todo:
        x = todo.pop()
        i = x.get_id()
        if i in seen:
            continue
        seen.add(i)
        m = _HEAVY_MEMO.get(i)
        if m is True:
            _HEAVY_MEMO[t.get_id()] = True
            core._KEEP.append(t)
            return True
        if m is False:
            continue
        n += 1
        if n > 400:
            break
        if z3.is_app(x):
            if x.decl().kind() in _HEAVY_KINDS and sum(1 for c in x.children() if not z3.is_bv_value(c)) >= 2:
                _HEAVY_MEMO[t.get_id()] = True
                core._KEEP.append(t)
                return True
            todo.extend(x.children())
    _HEAVY_MEMO[t.get_id()] = False
    core._KEEP.append(t)
    return False


def key_term(k, bits):
    if type(k) is builtins.int:
        return z3.BitVecVal(k, bits)
    return core.low(k.t, bits) if k.t.size() >= bits else core.sext(k.t, bits)


class _Deleted:
    def __repr__(self):
        return "<deleted>"


DELETED = _Deleted()  # write-log entry of a removed key (reads as absent / 0)


class Store:
    """key (unsigned, key_bits) -> value (unsigned, val_bits), optionally with presence."""

    def __init__(self, e, name, key_bits, val_bits, presence=False, export=None, zero_key=None, _share=None, zero_init=False):
        self.e = e
        self.name = name
        self.kb = key_bits
        self.vb = val_bits
        self.presence = presence
        self.zero_key = zero_key  # key whose initial value is hard 0 (x0)
        self.zero_init = zero_init if _share is None else _share.zero_init  # initially empty store
        self.sym = e.mode == "sym"
        if _share is not None:
            self.log = list(_share.log)
            self.conc = dict(_share.conc)
            self.cpres = set(_share.cpres) if presence else None
            self.cdel = set(getattr(_share, "cdel", ()))
        else:
            self.log = []  # sym: (key_term, val_term|None)  (None = deleted; unused)
            self.conc = {}
            self.cpres = set() if presence else None
            self.cdel = set()
        if self.sym and not self.zero_init:
            fresh = name not in e.ufs
            f = e.uf(name, key_bits, val_bits, export)
            if presence:
                e.uf(name + "_present", key_bits, 0, export)
            if fresh and zero_key is not None:
                # the hard-wired zero of the initial file is an assumption on the initial content
                # function (keeps read terms canonical: no ite on "index == 0")
                e.assume(f(z3.BitVecVal(zero_key, key_bits)) == z3.BitVecVal(0, val_bits))

    def fork(self):
        return Store(self.e, self.name, self.kb, self.vb, self.presence, zero_key=self.zero_key, _share=self)

    # -- symbolic side ---------------------------------------------------------------------------
    def init_term(self, kt):
        if self.zero_init:
            return z3.BitVecVal(0, self.vb)
        return self.e.apply_uf(self.name, kt)

    def _relevant(self, kt):
        """(base term, [(cond, value)] oldest first): the logged writes that may define the
        value at kt, after dropping those the index facts of the path exclude and stopping at
        the newest one they imply."""
        e = self.e
        pend = []
        base = None
        for wk, wv in reversed(self.log):
            if z3.is_bv_value(kt) and z3.is_bv_value(wk):
                r = kt.as_long() == wk.as_long()
            elif kt.eq(wk):
                r = True
            else:
                r = e.index_implied(kt == wk)
                if r is None and self.kb <= 8 and wv is not DELETED and is_heavy(wv):
                    # an undetermined aliasing with a multiplication/division result: fork on it
                    # instead of burying the product in an ite (keeps arithmetic terms canonical)
                    r = e.decide(kt == wk)
            if r is True:
                base = wv
                break
            if r is False:
                continue
            pend.append((kt == wk, wv))
        pend.reverse()
        return base, pend

    def read_term(self, kt):
        base, pend = self._relevant(kt)
        zero = z3.BitVecVal(0, self.vb)
        t = self.init_term(kt) if base is None else (zero if base is DELETED else base)
        for c, wv in pend:
            t = z3.If(c, zero if wv is DELETED else wv, t)
        return t

    def present_term(self, kt):
        base, pend = self._relevant(kt)
        if base is not None:
            t = z3.BoolVal(base is not DELETED)
        else:
            t = z3.BoolVal(False) if self.zero_init else self.e.apply_uf(self.name + "_present", kt)
        for c, wv in pend:
            t = z3.If(c, z3.BoolVal(wv is not DELETED), t)
        return t

    # -- common API --------------------------------------------------------------------------------
    def check_key(self, k):
        if type(k) is builtins.int:
            if not (0 <= k < (1 << self.kb)):
                self.e.claim("key-range:" + self.name, False, {"key": k})
            return
        if isinstance(k, SymInt) and (k.lo < 0 or k.hi >= (1 << self.kb)):
            w = k.t.size()
            self.e.claim(
                "key-range:" + self.name,
                z3.And(k.t >= 0, k.t < z3.BitVecVal(1 << self.kb, w)) if need_bits(0, 1 << self.kb) <= w else k.t >= 0,
            )

    def get(self, k):
        """value at key k (int or SymInt); presence is not consulted."""
        if self.sym:
            return SymInt.from_unsigned(self.read_term(key_term(k, self.kb)))
        k = builtins.int(k)
        if k in self.conc:
            return self.conc[k]
        if self.zero_key is not None and k == self.zero_key:
            return 0
        if self.zero_init:
            return 0
        return self.e.uf_value(self.name, k)

    def delete(self, k):
        """remove key k (it reads as absent / 0 afterwards)"""
        if self.sym:
            self.log.append((key_term(k, self.kb), DELETED if self.presence else z3.BitVecVal(0, self.vb)))
        else:
            k = builtins.int(k)
            self.conc[k] = 0
            if self.presence:
                self.cpres.discard(k)
                self.cdel.add(k)

    def is_present(self, k):
        """sym: z3 Bool; conc: bool"""
        if self.sym:
            return self.present_term(key_term(k, self.kb))
        k = builtins.int(k)
        if k in self.cdel and k not in self.cpres:
            return False
        if self.zero_init:
            return k in self.cpres
        return k in self.cpres or bool(self.e.uf_value(self.name + "_present", k))

    def set(self, k, v):
        if self.sym:
            vt = z3.BitVecVal(v, self.vb) if type(v) is builtins.int else core.low(v.t, self.vb) if v.t.size() >= self.vb else core.sext(v.t, self.vb)
            self.log.append((key_term(k, self.kb), vt))
        else:
            self.conc[builtins.int(k)] = builtins.int(v) & ((1 << self.vb) - 1)
            if self.presence:
                self.cpres.add(builtins.int(k))

    def abstract(self, q):
        """M(q): the value read at q, 0 where absent."""
        if self.sym:
            kt = key_term(q, self.kb)
            t = self.read_term(kt)
            if self.presence:
                t = z3.If(self.present_term(kt), t, z3.BitVecVal(0, self.vb))
            return SymInt.from_unsigned(t)
        if self.presence and not self.is_present(q):
            return 0
        return self.get(q)


# ---------------------------------------------------------------------------------------------------
# Memory.memory_file
# ---------------------------------------------------------------------------------------------------


def _val(x):
    if getattr(type(x), "_symx_fixedint_model", False):
        return x._v
    if isinstance(x, builtins.int):
        return builtins.int(x)
    if isinstance(x, SymInt):
        return x
    raise TypeError("memory cell value of type %s" % type(x).__name__)


class SymMem:
    """dict-like over a Store.  total=True: every key reads as present (arbitrary contents)."""

    def __init__(self, e, store: Store, cell_cls, total: bool):
        self.e = e
        self.store = store
        self.cell_cls = cell_cls
        self.total = total
        self.type_faults = []

    def __getitem__(self, k):
        self.store.check_key(k)
        if not self.total:
            p = self.store.is_present(k)
            if not (self.e.decide(p) if self.e.mode == "sym" else p):
                raise KeyError(k)
        return self.cell_cls(self.store.get(k))

    def __setitem__(self, k, v):
        self.store.check_key(k)
        if type(v) is not self.cell_cls:
            self.e.claim("cell-type:" + self.store.name, False, {"stored": type(v).__name__})
        self.store.set(k, _val(v))

    def __delitem__(self, k):
        self.store.check_key(k)
        if not self.total:
            p = self.store.is_present(k)
            if not (self.e.decide(p) if self.e.mode == "sym" else p):
                raise KeyError(k)
        self.store.delete(k)

    def pop(self, k, *default):
        try:
            v = self[k]
        except KeyError:
            if default:
                return default[0]
            raise
        del self[k]
        return v

    def setdefault(self, k, default=None):
        try:
            return self[k]
        except KeyError:
            self[k] = default
            return default

    def __contains__(self, k):
        if self.total:
            return True
        p = self.store.is_present(k)
        return self.e.decide(p) if self.e.mode == "sym" else p

    def get(self, k, default=None):
        try:
            return self[k]
        except KeyError:
            return default

    def _unsup(self, *a, **k):
        raise EngineUnsupported("enumerating a symbolic memory")

    keys = values = items = __iter__ = __len__ = _unsup

    def __bool__(self):
        raise EngineUnsupported("truth value of a symbolic memory")

    def __deepcopy__(self, memo):
        return SymMem(self.e, self.store.fork(), self.cell_cls, self.total)


# ---------------------------------------------------------------------------------------------------
# Register file
# ---------------------------------------------------------------------------------------------------


class SymStoreList(list):
    """list-like base placed *under* the real Registers class in the MRO."""

    def _symx_init(self, e, store: Store, cell_cls, n=32):
        self._e = e
        self._store = store
        self._cell = cell_cls
        self._n = n

    def _chk(self, index):
        if type(index) is builtins.int:
            if index < 0:
                index += self._n
            if not (0 <= index < self._n):
                raise IndexError("list index out of range")
            return index
        if isinstance(index, SymInt):
            if index.lo < 0 or index.hi >= self._n:
                if not (index >= 0 and index < self._n):
                    raise IndexError("list index out of range")
            return index
        if isinstance(index, slice):
            raise EngineUnsupported("slicing the symbolic register file")
        return self._chk(index.__index__())

    def __getitem__(self, index):
        index = self._chk(index)
        return self._cell(self._store.get(index))

    def __setitem__(self, index, value):
        index = self._chk(index)
        if type(value) is not self._cell:
            self._e.claim("cell-type:" + self._store.name, False, {"stored": type(value).__name__})
        self._store.set(index, _val(value))

    def __iter__(self):
        for i in range(self._n):
            yield SymStoreList.__getitem__(self, i)

    def __len__(self):
        return self._n

    def __deepcopy__(self, memo):
        r = type(self)()
        r._symx_init(self._e, self._store.fork(), self._cell, self._n)
        return r

    def __eq__(self, other):
        raise EngineUnsupported("== on symbolic register file")

    __hash__ = None


_SYMREGS_CLS = None


def make_symregs(e, store: Store, cell_cls):
    global _SYMREGS_CLS
    from architecture_simulator.uarch.riscv.register_file import Registers

    if _SYMREGS_CLS is None or _SYMREGS_CLS.__mro__[1] is not Registers:
        _SYMREGS_CLS = type("SymRegs", (Registers, SymStoreList), {})
    r = _SYMREGS_CLS()
    r._symx_init(e, store, cell_cls)
    return r


# ---------------------------------------------------------------------------------------------------
# dict with symbolic lookup key
# ---------------------------------------------------------------------------------------------------


class SymKeyDict:
    def __init__(self, entries=None):
        self.entries = list(entries or [])  # (key:int|SymInt, value)

    def _find(self, k):
        for key, v in self.entries:
            if key is k:
                return (key, v)
            if k == key:
                return (key, v)
        return None

    def __contains__(self, k):
        return self._find(k) is not None

    def __getitem__(self, k):
        r = self._find(k)
        if r is None:
            raise KeyError(k)
        return r[1]

    def get(self, k, default=None):
        r = self._find(k)
        return default if r is None else r[1]

    def __setitem__(self, k, v):
        for i, (key, _) in enumerate(self.entries):
            if key is k or k == key:
                self.entries[i] = (key, v)
                return
        self.entries.append((k, v))

    def __bool__(self):
        return bool(self.entries)

    def __len__(self):
        return len(self.entries)

    def __iter__(self):
        return iter([k for k, _ in self.entries])

    def keys(self):
        return [k for k, _ in self.entries]

    def values(self):
        return [v for _, v in self.entries]

    def items(self):
        return list(self.entries)

    def __deepcopy__(self, memo):
        return SymKeyDict(self.entries)


class SymRange:
    def __init__(self, start, stop):
        self.start = start
        self.stop = stop
        self.step = 1

    def __contains__(self, a):
        if type(a) is builtins.int:
            return self.start <= a < self.stop
        return bool(a >= self.start) and bool(a < self.stop)

    def __iter__(self):
        return iter(range(self.start, self.stop))

    def __reversed__(self):
        return reversed(range(self.start, self.stop))

    def __len__(self):
        return self.stop - self.start

    def __getitem__(self, i):
        return range(self.start, self.stop)[i]

    def __eq__(self, o):
        return isinstance(o, (SymRange, range)) and (self.start, self.stop) == (o.start, o.stop)

    def __hash__(self):
        return hash((self.start, self.stop))

    def __repr__(self):
        return "range(%d, %d)" % (self.start, self.stop)

    def __deepcopy__(self, memo):
        return self
