"""Snapshot of the repository's process-wide mutable state (module-level and class-level lists,
dicts and sets of every loaded architecture_simulator module).  Inspection purity (C16) also means
that no getter mutates such shared tables; the snapshot taken right after import is the
reference, so a corruption is visible in every later comparison in the same process."""
from __future__ import annotations

import sys

_PRISTINE = None


def _deep(v, depth=0):
    if depth > 6:
        return "<depth>"
    if v is None or isinstance(v, (bool, int, float, str)):
        return v
    if isinstance(v, (list, tuple)):
        return [_deep(x, depth + 1) for x in v]
    if isinstance(v, (set, frozenset)):
        return sorted(repr(_deep(x, depth + 1)) for x in v)
    if isinstance(v, dict):
        return {repr(k) if not isinstance(k, str) else k: _deep(x, depth + 1) for k, x in v.items()}
    if isinstance(v, type):
        return "<class %s>" % v.__name__
    if getattr(type(v), "_symx_fixedint_model", False):
        return repr(v)
    if type(v).__module__.startswith("architecture_simulator") and hasattr(v, "__dict__"):
        return {"__class__": type(v).__name__, **{k: _deep(x, depth + 1) for k, x in vars(v).items()}}
    return "<%s>" % type(v).__name__


def take():
    out = {}
    for name, m in list(sys.modules.items()):
        if m is None or not name.startswith("architecture_simulator"):
            continue
        for g, v in list(vars(m).items()):
            if g.startswith("__"):
                continue
            if isinstance(v, (list, dict, set)):
                out["%s.%s" % (name, g)] = _deep(v)
            elif isinstance(v, type) and v.__module__ == name:
                for a, x in list(vars(v).items()):
                    if a.startswith("__"):
                        continue
                    if isinstance(x, (list, dict, set)):
                        out["%s.%s.%s" % (name, v.__name__, a)] = _deep(x)
    return out


def init():
    global _PRISTINE
    if _PRISTINE is None:
        _PRISTINE = take()


def changed():
    """names of shared tables that differ from their state right after import"""
    init()
    now = take()
    return sorted(k for k in set(now) | set(_PRISTINE) if now.get(k) != _PRISTINE.get(k))
