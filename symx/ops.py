"""Mode-agnostic helper operations for harnesses and reference models: they work on plain ints
(concrete twin) and on SymInt (symbolic run) and produce canonical term shapes."""
from __future__ import annotations

import builtins

import z3

from . import core
from .core import SymInt, low, sext, need_bits, truncdiv, truncrem


def val(x):
    """Python-int value of an int-like (fixedint real or model, int, SymInt)."""
    if type(x) is SymInt or type(x) is builtins.int:
        return x
    if getattr(type(x), "_symx_fixedint_model", False):
        return x._v
    if isinstance(x, core.LazyBool):
        return builtins.int(bool(x))
    return builtins.int(x)


def zx(x, bits):
    """x mod 2^bits"""
    return val(x) & ((1 << bits) - 1)


def sx(x, bits):
    """two's-complement signed reading of the low `bits` bits of x"""
    x = val(x)
    if type(x) is builtins.int:
        x &= (1 << bits) - 1
        return x - (1 << bits) if x >> (bits - 1) else x
    if -(1 << (bits - 1)) <= x.lo and x.hi < (1 << (bits - 1)):
        return x
    t = low(x.t, bits) if x.t.size() >= bits else sext(x.t, bits)
    return SymInt.mk(t, -(1 << (bits - 1)), (1 << (bits - 1)) - 1)


def ite(c, a, b):
    """c: Python bool or z3 Bool; a, b: int-likes."""
    if isinstance(c, bool):
        return a if c else b
    a, b = val(a), val(b)
    lo = min(core._lo(a), core._lo(b))
    hi = max(core._hi(a), core._hi(b))
    w = need_bits(lo, hi)
    return SymInt.mk(z3.If(c, core._ext(a, w), core._ext(b, w)), lo, hi)


def cond(op, a, b):
    """Comparison as a *formula* (no fork): z3 Bool in symbolic mode, bool in concrete mode."""
    a, b = val(a), val(b)
    if type(a) is builtins.int and type(b) is builtins.int:
        return {"==": a == b, "!=": a != b, "<": a < b, "<=": a <= b, ">": a > b, ">=": a >= b}[op]
    w = max(core._w(a), core._w(b))
    A, B = core._ext(a, w), core._ext(b, w)
    return {"==": A == B, "!=": A != B, "<": A < B, "<=": A <= B, ">": A > B, ">=": A >= B}[op]


def land(*cs):
    out = []
    for c in cs:
        if c is True:
            continue
        if c is False:
            return False
        out.append(c)
    if not out:
        return True
    return out[0] if len(out) == 1 else z3.And(*out)


def lor(*cs):
    out = []
    for c in cs:
        if c is False:
            continue
        if c is True:
            return True
        out.append(c)
    if not out:
        return False
    return out[0] if len(out) == 1 else z3.Or(*out)


def lnot(c):
    if isinstance(c, bool):
        return not c
    return z3.Not(c)


def implies(a, b):
    return lor(lnot(a), b)


tdiv = truncdiv
trem = truncrem


# ---- text renderers (trusted CPython renderers applied to a value) ---------------------------------


def f32_text(x):
    """text CPython prints for the binary32 value with bit pattern x (0 <= x < 2^32)"""
    import struct

    x = val(x)
    if type(x) is builtins.int:
        return str(struct.unpack(">f", x.to_bytes(4, "big"))[0])
    from . import text

    return text.table().span("f32", x)


def chr_text(x):
    x = val(x)
    if type(x) is builtins.int:
        return chr(x)
    from . import text

    return text.sym_chr(x)


def fmt(x, spec=""):
    return format(val(x), spec)
