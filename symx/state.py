"""Construction of (symbolic or concrete) simulator states from real repository objects.
Mode-agnostic: with an Env the leaves are symbolic containers, with a ConcEnv they are the real
containers filled from the model."""
from __future__ import annotations

import builtins

from . import core
from .containers import Store, SymMem, SymRange, SymKeyDict, make_symregs


def fx():
    import fixedint

    return fixedint


class RiscvCtx:
    """Handles to the pre-state and accessors for the post-state of a RiscvSimulation."""

    def __init__(self):
        self.sim = None
        self.regs0 = None  # Store snapshot of the initial register file
        self.mem0 = None  # Store snapshot of the initial (lower) memory
        self.mem_store = None  # live Store behind the (lower) Memory
        self.reg_store = None  # live Store behind the register file (sym mode) or None

    def reg(self, i):
        """current value of register i through the real register list"""
        from .ops import val

        return val(self.sim.state.register_file.registers[i])

    def check_cell_types(self, e, tag=""):
        """representation invariant of the register file: every cell is a UInt32.  In symbolic
        mode the register container claims it at every write ("cell-type:R0..."); the concrete
        twin emits the same claim here, so that a symbolic counterexample can be confirmed."""
        if e.mode == "sym":
            return
        regs = self.sim.state.register_file.registers
        bad = [type(r).__name__ for r in list.__iter__(regs) if type(r).__name__ != "UInt32"]
        if bad:
            e.claim("cell-type:R0" + tag, False, {"stored": bad[0]})

    def lower_mem(self):
        m = self.sim.state.memory
        return getattr(m, "memory", m)  # cache systems keep the backing Memory in .memory

    def mem_byte(self, a):
        """abstract content M(a) of the backing memory at byte address a"""
        return self.mem_store.abstract(a)


def cache_options(enable=False, index_bits=0, block_bits=0, assoc=1, kind="wb", repl="lru", miss_penalty=0):
    from architecture_simulator.uarch.memory.cache import CacheOptions

    return CacheOptions(
        enable=enable,
        num_index_bits=index_bits,
        num_block_bits=block_bits,
        associativity=assoc,
        cache_type=kind,
        replacement_strategy=repl,
        miss_penalty=miss_penalty,
    )


def mk_riscv(e, mode="single_stage_pipeline", detect=True, dcache=None, icache=None, mem="total", tag=""):
    """A real RiscvSimulation whose register file and data memory have arbitrary contents."""
    from architecture_simulator.simulation.riscv_simulation import RiscvSimulation
    from architecture_simulator.uarch.riscv.register_file import Registers

    f = fx()
    kw = {}
    if dcache is not None:
        kw["data_cache"] = dcache
    if icache is not None:
        kw["instruction_cache"] = icache
    sim = RiscvSimulation(mode=mode, detect_data_hazards=detect, **kw)
    st = sim.state
    c = RiscvCtx()
    c.sim = sim
    # other simulation objects that stay alive next to the one under test, built after it with the
    # opposite options: instances must not share mutable state (stages, tables, option objects)
    other_mode = "five_stage_pipeline" if mode == "single_stage_pipeline" else "single_stage_pipeline"
    c.bystanders = [RiscvSimulation(mode=mode, detect_data_hazards=not detect), RiscvSimulation(mode=other_mode, detect_data_hazards=not detect)]
    regs = Store(e, "R0" + tag, 5, 32, export=range(32), zero_key=0)
    c.regs0 = regs.fork()
    if e.mode == "sym":
        st.register_file.registers = make_symregs(e, regs, f.UInt32)
        c.reg_store = regs
    else:
        st.register_file.registers = Registers([f.UInt32(regs.get(i)) for i in range(32)])
    lower = getattr(st.memory, "memory", st.memory)
    if mem in ("total", "presence"):
        ms = Store(e, "M0" + tag, 32, 8, presence=(mem == "presence"))
        c.mem0 = ms.fork()
        c.mem_store = ms
        lower.memory_file = SymMem(e, ms, f.UInt8, total=(mem == "total"))
        if e.mode == "sym":
            lower.address_range = SymRange(lower.address_range.start, lower.address_range.stop)
    elif mem == "empty":
        if e.mode == "sym":
            lower.address_range = SymRange(lower.address_range.start, lower.address_range.stop)
    else:
        raise ValueError(mem)
    return c


def place_instructions(e, c: RiscvCtx, items):
    """items: list of (address:int|SymInt, instruction). Installs them as instruction memory."""
    st = c.sim.state
    im = st.instruction_memory
    im = getattr(im, "instruction_memory", im)
    if e.mode == "sym":
        im.instructions = SymKeyDict(items)
        im.address_range = SymRange(im.address_range.start, im.address_range.stop)
    else:
        im.instructions = {builtins.int(a): i for a, i in items}
    return im


# ---------------------------------------------------------------------------------------------------
# TOY
# ---------------------------------------------------------------------------------------------------


class ToyInputs:
    """Symbolic leaves of a TOY state, declared once so that several simulations can be built
    from the same pre-state."""

    def __init__(self, e, mem_size=None, done=None, next_cycle=None, ir_opcode=None, pc_full=False):
        self.e = e
        self.mem_size = mem_size
        self.accu = e.int("accu", 0, 0xFFFF)
        self.pc = e.int("pc", 0, 4095 if pc_full else (mem_size or 4096) - 1)
        self.max_pc = e.int("max_pc", 0, (mem_size or 4096) - 1)
        if ir_opcode is None:
            self.ir_word = e.int("ir", 0, 0xFFFF)
        else:
            self.ir_word = (ir_opcode << 12) | e.int("ir_addr", 0, 0xFFF)
        self.cur = e.int("addr_cur", 0, 4095)
        self.nxt = e.int("addr_next", 0, 4095)
        if mem_size:
            # table variant: opcode of every cell concrete (the memory table decodes every row, a
            # symbolic opcode would fork 13 ways per row), address bits symbolic
            self.cells = [(((5 * i + 3) % 16) << 12) | e.int("mem%d" % i, 0, 0xFFF) for i in range(mem_size)]
            self.store = None
        else:
            self.store = Store(e, "T0", 12, 16)
        self.done = done
        self.next_cycle = next_cycle


def mk_toy(e, inp: ToyInputs):
    from architecture_simulator.simulation.toy_simulation import ToySimulation
    from architecture_simulator.isa.toy.toy_instructions import ToyInstruction
    from architecture_simulator.util.fixedint_12 import UInt12

    f = fx()
    sim = ToySimulation(unified_memory_size=inp.mem_size)
    st = sim.state
    st.accu = f.UInt16(inp.accu)
    st.program_counter = UInt12(inp.pc)
    st.max_pc = inp.max_pc
    st.address_of_current_instruction = inp.cur
    st.address_of_next_instruction = inp.nxt
    st.loaded_instruction = None if inp.done else ToyInstruction.from_integer(inp.ir_word)
    if inp.next_cycle is not None:
        sim.next_cycle = inp.next_cycle
    if inp.mem_size:
        st.memory.memory_file = {i: f.UInt16(v) for i, v in enumerate(inp.cells)}
        store = None
        if e.mode == "sym":
            st.memory.address_range = SymRange(0, inp.mem_size)
    else:
        store = inp.store.fork()
        st.memory.memory_file = SymMem(e, store, f.UInt16, total=True)
        if e.mode == "sym":
            st.memory.address_range = SymRange(0, 4096)
    return sim, store
