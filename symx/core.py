"""symx core: path exploration by re-execution, SymInt (Python int over exact-width z3
bit-vectors with static intervals), verification conditions.

The code under test is the *real* repository code; it is called with SymInt proxies.
Every comparison / truth test on a SymInt calls Env.decide() and returns a real bool, so
repository code never sees a symbolic boolean.  See /verif/DESIGN.md section 2.1.
"""
from __future__ import annotations

import os
import time
import builtins
import z3

# --------------------------------------------------------------------------------------
# exceptions (BaseException: repository code catches `Exception` in several places)
# --------------------------------------------------------------------------------------


class EngineSignal(BaseException):
    pass


class EngineUnsupported(EngineSignal):
    """A construct the engine refuses to model (inconclusive, never a pass)."""


class PathPruned(EngineSignal):
    """assume() made the path condition unsatisfiable."""


class SolverUnknown(EngineSignal):
    """z3 answered unknown / timed out on a feasibility query."""


class PathCut(EngineSignal):
    """The path left a stated bound (loop unwinding, step cap); counted, never a pass."""


# --------------------------------------------------------------------------------------
# current environment
# --------------------------------------------------------------------------------------

_ENV: "Env | None" = None


def env() -> "Env":
    if _ENV is None:
        raise RuntimeError("no active symx environment")
    return _ENV


def active() -> bool:
    return _ENV is not None


def set_env(e):
    global _ENV
    _ENV = e


# --------------------------------------------------------------------------------------
# bit-vector helpers
# --------------------------------------------------------------------------------------


def need_bits(lo: int, hi: int) -> int:
    """Minimal two's-complement width that holds every value in [lo, hi]."""
    w = 1
    if hi >= 0:
        w = max(w, hi.bit_length() + 1)
    if lo < 0:
        w = max(w, (~lo).bit_length() + 1)
    return w


_LOW_MEMO: dict = {}
_KEEP: list = []  # keeps z3 ASTs alive so ids in _LOW_MEMO stay unique


def reset_memo():
    _LOW_MEMO.clear()
    _KEEP.clear()
    try:
        from . import containers

        containers._HEAVY_MEMO.clear()
    except Exception:
        pass


_HOMO = {
    z3.Z3_OP_BADD,
    z3.Z3_OP_BSUB,
    z3.Z3_OP_BMUL,
    z3.Z3_OP_BAND,
    z3.Z3_OP_BOR,
    z3.Z3_OP_BXOR,
    z3.Z3_OP_BNOT,
    z3.Z3_OP_BNEG,
}


def low(t, w: int):
    """A w-bit term equal to the low w bits of t (sign-extended if t is narrower).

    Pushes the truncation homomorphically through + - * & | ^ ~ neg ite ext so that e.g.
    the low 32 bits of a 64-bit product of sign-extended operands becomes a 32-bit bvmul.
    Memoised (terms are DAGs)."""
    sz = t.size()
    if sz == w:
        return t
    if sz < w:
        return z3.SignExt(w - sz, t)
    key = (t.get_id(), w)
    r = _LOW_MEMO.get(key)
    if r is not None:
        return r
    r = _low(t, w)
    _LOW_MEMO[key] = r
    _KEEP.append(t)
    return r


def _low(t, w):
    if z3.is_bv_value(t):
        return z3.BitVecVal(t.as_long() & ((1 << w) - 1), w)
    if not z3.is_app(t):
        return z3.Extract(w - 1, 0, t)
    k = t.decl().kind()
    if k in _HOMO:
        ch = [low(c, w) for c in t.children()]
        if k == z3.Z3_OP_BADD:
            r = ch[0]
            for c in ch[1:]:
                r = r + c
            return r
        if k == z3.Z3_OP_BSUB:
            r = ch[0]
            for c in ch[1:]:
                r = r - c
            return r
        if k == z3.Z3_OP_BMUL:
            r = ch[0]
            for c in ch[1:]:
                r = r * c
            return r
        if k == z3.Z3_OP_BAND:
            r = ch[0]
            for c in ch[1:]:
                r = r & c
            return r
        if k == z3.Z3_OP_BOR:
            r = ch[0]
            for c in ch[1:]:
                r = r | c
            return r
        if k == z3.Z3_OP_BXOR:
            r = ch[0]
            for c in ch[1:]:
                r = r ^ c
            return r
        if k == z3.Z3_OP_BNOT:
            return ~ch[0]
        if k == z3.Z3_OP_BNEG:
            return -ch[0]
    if k == z3.Z3_OP_ITE:
        c, a, b = t.children()
        return z3.If(c, low(a, w), low(b, w))
    if k in (z3.Z3_OP_SIGN_EXT, z3.Z3_OP_ZERO_EXT):
        x = t.children()[0]
        xs = x.size()
        if xs >= w:
            return low(x, w)
        if k == z3.Z3_OP_SIGN_EXT:
            return z3.SignExt(w - xs, x)
        return z3.ZeroExt(w - xs, x)
    if k == z3.Z3_OP_CONCAT:
        ch = t.children()
        last = ch[-1]
        if last.size() >= w:
            return low(last, w)
    if k == z3.Z3_OP_BSHL:
        a, s = t.children()
        if z3.is_bv_value(s):
            sh = s.as_long()
            if sh >= w:
                return z3.BitVecVal(0, w)
            return low(a, w) << z3.BitVecVal(sh, w)
    return z3.Extract(w - 1, 0, t)


def sext(t, w: int):
    sz = t.size()
    if sz == w:
        return t
    if sz > w:
        raise AssertionError("sext to a narrower width")
    if z3.is_bv_value(t):
        return z3.BitVecVal(t.as_signed_long(), w)
    return z3.SignExt(w - sz, t)


# --------------------------------------------------------------------------------------
# SymInt
# --------------------------------------------------------------------------------------


def _is_fi(x) -> bool:
    return getattr(type(x), "_symx_fixedint_model", False)


class SymInt:
    """A Python int whose value is the signed reading of the z3 bit-vector `t`.

    Invariant: value in [lo, hi] and t.size() == need_bits(lo, hi)."""

    __slots__ = ("t", "lo", "hi")

    def __init__(self, t, lo: int, hi: int):
        self.t = t
        self.lo = lo
        self.hi = hi

    # ---- construction -------------------------------------------------------------
    @staticmethod
    def mk(t, lo: int, hi: int):
        """Build from a term whose *signed* reading is the value, known to be in [lo,hi]."""
        if lo > hi:
            raise AssertionError("empty interval")
        if lo == hi:
            return lo
        if z3.is_bv_value(t):
            return t.as_signed_long()
        w = need_bits(lo, hi)
        sz = t.size()
        if sz > w:
            t = low(t, w)
        elif sz < w:
            t = sext(t, w)
        return SymInt(t, lo, hi)

    @staticmethod
    def from_unsigned(t, hi: int | None = None):
        """Build from a term whose *unsigned* reading is the value (known to be <= hi)."""
        w = t.size()
        if hi is None:
            hi = (1 << w) - 1
        if z3.is_bv_value(t):
            return t.as_long()
        return SymInt.mk(z3.ZeroExt(1, t), 0, hi)

    @property
    def width(self) -> int:
        return self.t.size()

    def ext(self, w: int):
        return sext(self.t, w)

    def ubits(self, w: int):
        """low w bits as an (unsigned) w-bit term."""
        return low(self.t, w)

    # ---- arithmetic ----------------------------------------------------------------
    def __add__(self, o):
        o = _co(o)
        if o is None:
            return NotImplemented
        lo, hi = self.lo + _lo(o), self.hi + _hi(o)
        w = need_bits(lo, hi)
        return SymInt.mk(_extlow(self, w) + _extlow(o, w), lo, hi)

    __radd__ = __add__

    def __sub__(self, o):
        o = _co(o)
        if o is None:
            return NotImplemented
        lo, hi = self.lo - _hi(o), self.hi - _lo(o)
        w = need_bits(lo, hi)
        return SymInt.mk(_extlow(self, w) - _extlow(o, w), lo, hi)

    def __rsub__(self, o):
        o = _co(o)
        if o is None:
            return NotImplemented
        lo, hi = _lo(o) - self.hi, _hi(o) - self.lo
        w = need_bits(lo, hi)
        return SymInt.mk(_extlow(o, w) - _extlow(self, w), lo, hi)

    def __mul__(self, o):
        o = _co(o)
        if o is None:
            return NotImplemented
        if type(o) is int:
            if o == 0:
                return 0
            if o == 1:
                return self
        if type(o) is SymInt:
            self, o = canon_int(self), canon_int(o)
        cs = [self.lo * _lo(o), self.lo * _hi(o), self.hi * _lo(o), self.hi * _hi(o)]
        lo, hi = min(cs), max(cs)
        w = need_bits(lo, hi)
        return SymInt.mk(_extlow(self, w) * _extlow(o, w), lo, hi)

    __rmul__ = __mul__

    def __neg__(self):
        lo, hi = -self.hi, -self.lo
        w = need_bits(lo, hi)
        return SymInt.mk(-_extlow(self, w), lo, hi)

    def __pos__(self):
        return self

    def __abs__(self):
        if self.lo >= 0:
            return self
        if self.hi <= 0:
            return -self
        return -self if env().decide(self.t < 0) else self

    def __invert__(self):
        return SymInt.mk(~self.t, ~self.hi, ~self.lo)

    # ---- bitwise -------------------------------------------------------------------
    def __and__(self, o):
        o = _co(o)
        if o is None:
            return NotImplemented
        if type(o) is int:
            if o == 0:
                return 0
            if o == -1:
                return self
            if o > 0:
                k = o.bit_length()
                hi = o if self.lo < 0 else min(o, self.hi)
                u = low(self.t, k)
                if o != (1 << k) - 1:
                    u = u & z3.BitVecVal(o, k)
                return SymInt.mk(z3.ZeroExt(1, u), 0, hi)
        w = max(self.width, _w(o))
        t = _ext(self, w) & _ext(o, w)
        if self.lo >= 0 and _lo(o) >= 0:
            return SymInt.mk(t, 0, min(self.hi, _hi(o)))
        if self.lo >= 0:
            return SymInt.mk(t, 0, self.hi)
        if _lo(o) >= 0:
            return SymInt.mk(t, 0, _hi(o))
        return SymInt.mk(t, -(1 << (w - 1)), (1 << (w - 1)) - 1)

    __rand__ = __and__

    def _orxor(self, o, is_or):
        o = _co(o)
        if o is None:
            return NotImplemented
        if type(o) is int and o == 0:
            return self
        w = max(self.width, _w(o))
        a, b = _ext(self, w), _ext(o, w)
        t = (a | b) if is_or else (a ^ b)
        if self.lo >= 0 and _lo(o) >= 0:
            return SymInt.mk(t, 0, (1 << max(self.hi.bit_length(), _hi(o).bit_length())) - 1)
        return SymInt.mk(t, -(1 << (w - 1)), (1 << (w - 1)) - 1)

    def __or__(self, o):
        return self._orxor(o, True)

    __ror__ = __or__

    def __xor__(self, o):
        return self._orxor(o, False)

    __rxor__ = __xor__

    def __lshift__(self, s):
        s = _co(s)
        if s is None:
            return NotImplemented
        return _shl(self, s)

    def __rlshift__(self, a):
        a = _co(a)
        if a is None:
            return NotImplemented
        return _shl(a, self)

    def __rshift__(self, s):
        s = _co(s)
        if s is None:
            return NotImplemented
        return _shr(self, s)

    def __rrshift__(self, a):
        a = _co(a)
        if a is None:
            return NotImplemented
        return _shr(a, self)

    # ---- division ------------------------------------------------------------------
    def __floordiv__(self, o):
        o = _co(o)
        if o is None:
            return NotImplemented
        return floordiv(self, o)

    def __rfloordiv__(self, o):
        o = _co(o)
        if o is None:
            return NotImplemented
        return floordiv(o, self)

    def __mod__(self, o):
        o = _co(o)
        if o is None:
            return NotImplemented
        return pymod(self, o)

    def __rmod__(self, o):
        o = _co(o)
        if o is None:
            return NotImplemented
        return pymod(o, self)

    def __truediv__(self, o):
        o = _co(o)
        if o is None:
            return NotImplemented
        return FloatQuot(self, o)

    def __rtruediv__(self, o):
        o = _co(o)
        if o is None:
            return NotImplemented
        return FloatQuot(o, self)

    def __divmod__(self, o):
        return (self // o, self % o)

    def __pow__(self, e, m=None):
        if m is not None:
            raise EngineUnsupported("3-arg pow on symbolic int")
        if isinstance(e, SymInt):
            e = env().concretize(e)
        if type(e) is not int or e < 0:
            raise EngineUnsupported("pow with non-natural exponent on symbolic int")
        r = 1
        for _ in range(e):
            r = r * self
        return r

    def __rpow__(self, b):
        e = env().concretize(self)
        return b ** e

    # ---- comparisons (eager fork) -------------------------------------------------------
    def _cmp(self, o, op):
        o = _co(o)
        if o is None:
            return NotImplemented
        alo, ahi, blo, bhi = self.lo, self.hi, _lo(o), _hi(o)
        if op == "<":
            if ahi < blo:
                return True
            if alo >= bhi:
                return False
        elif op == "<=":
            if ahi <= blo:
                return True
            if alo > bhi:
                return False
        elif op == ">":
            if alo > bhi:
                return True
            if ahi <= blo:
                return False
        elif op == ">=":
            if alo >= bhi:
                return True
            if ahi < blo:
                return False
        elif op in ("==", "!="):
            if ahi < blo or alo > bhi:
                return op == "!="
        w = max(self.width, _w(o))
        a, b = _ext(self, w), _ext(o, w)
        if op == "<":
            c = a < b
        elif op == "<=":
            c = a <= b
        elif op == ">":
            c = a > b
        elif op == ">=":
            c = a >= b
        elif op == "==":
            c = a == b
        else:
            c = a != b
        return env().decide(c)

    def __lt__(self, o):
        return self._cmp(o, "<")

    def __le__(self, o):
        return self._cmp(o, "<=")

    def __gt__(self, o):
        return self._cmp(o, ">")

    def __ge__(self, o):
        return self._cmp(o, ">=")

    def __eq__(self, o):
        return self._cmp(o, "==")

    def __ne__(self, o):
        return self._cmp(o, "!=")

    def __bool__(self):
        if self.lo > 0 or self.hi < 0:
            return True
        return env().decide(self.t != 0)

    # ---- conversions ---------------------------------------------------------------
    def __index__(self):
        return env().concretize(self)

    def __int__(self):
        # only reached from code whose `int` was not rebound (not the repository)
        return env().concretize(self)

    def __hash__(self):
        return hash(env().concretize(self))

    def __float__(self):
        raise EngineUnsupported("float() of a symbolic int")

    def __trunc__(self):
        return self

    def __round__(self, n=None):
        return self

    def bit_length(self):
        raise EngineUnsupported("bit_length of symbolic int")

    def to_bytes(self, length=1, byteorder="big", *, signed=False):
        from .text import SymBytes

        if not signed and self.lo < 0:
            if env().decide(self.t < 0):
                raise OverflowError("can't convert negative int to unsigned")
        if self.hi >= (1 << (8 * length)):
            w = self.width
            if env().decide(self.t >= z3.BitVecVal(1 << (8 * length), w)):
                raise OverflowError("int too big to convert")
        return SymBytes(self, length, byteorder)

    def __repr__(self):
        return self.__str__()

    def __str__(self):
        from .text import render_int

        return render_int(self, "")

    def __format__(self, spec):
        from .text import render_int

        return render_int(self, spec)

    def __deepcopy__(self, memo):
        return self

    def __copy__(self):
        return self

    def __reduce__(self):
        raise EngineUnsupported("pickling a symbolic int")


class FloatQuot:
    """Result of `a / b` on symbolic ints: only int() (truncation) is supported.
    Lemma L-FP (DESIGN.md section 3): for |a|,|b| < 2^31, int(a / b) is truncating division."""

    __slots__ = ("a", "b")

    def __init__(self, a, b):
        self.a = a
        self.b = b

    def trunc(self):
        return truncdiv(self.a, self.b)

    def __int__(self):
        raise EngineUnsupported("int() of symbolic float outside repository code")

    def _unsup(self, *a, **k):
        raise EngineUnsupported("float arithmetic on symbolic data")

    __add__ = __radd__ = __sub__ = __rsub__ = __mul__ = __rmul__ = _unsup
    __truediv__ = __rtruediv__ = __lt__ = __le__ = __gt__ = __ge__ = _unsup
    __eq__ = __ne__ = __bool__ = __float__ = __str__ = __repr__ = __format__ = _unsup
    __hash__ = _unsup


# canonical operands for multiplication / division ----------------------------------------------


def canon(t):
    """Resolve every ite whose condition is an index fact (forking where the path condition has
    not decided it yet) so that operands of multiplications and divisions are the same terms in
    every simulation that computes them on this path."""
    e = _ENV
    if e is None or getattr(e, "mode", "") != "sym" or not hasattr(e, "index_implied"):
        return t
    memo = {}
    budget = [400]

    def go(x):
        i = x.get_id()
        r = memo.get(i)
        if r is not None:
            return r
        budget[0] -= 1
        if budget[0] < 0 or not z3.is_app(x) or x.num_args() == 0:
            memo[i] = x
            return x
        k = x.decl().kind()
        if k == z3.Z3_OP_ITE:
            c, a, b = x.children()
            if e._index_only(c):
                v = e.index_implied(c)
                if v is None:
                    v = e.decide(c)
                r = go(a) if v else go(b)
                memo[i] = r
                return r
        if k == z3.Z3_OP_UNINTERPRETED:
            memo[i] = x
            return x
        ch = x.children()
        nch = [go(c) for c in ch]
        if all(a.eq(b) for a, b in zip(ch, nch)):
            r = x
        else:
            try:
                if k in (z3.Z3_OP_SIGN_EXT, z3.Z3_OP_ZERO_EXT, z3.Z3_OP_EXTRACT):
                    ps = x.params()
                    if k == z3.Z3_OP_EXTRACT:
                        r = z3.Extract(ps[0], ps[1], nch[0])
                    elif k == z3.Z3_OP_SIGN_EXT:
                        r = z3.SignExt(ps[0], nch[0])
                    else:
                        r = z3.ZeroExt(ps[0], nch[0])
                else:
                    r = x.decl()(*nch)
            except Exception:
                r = x
        memo[i] = r
        _KEEP.append(x)
        return r

    return go(t)


def canon_int(x):
    if type(x) is SymInt:
        t = canon(x.t)
        if t is not x.t:
            return SymInt(t, x.lo, x.hi)
    return x


# coercion helpers ------------------------------------------------------------------


def _co(x):
    """int-like -> SymInt | int ; otherwise None (-> NotImplemented).
    fixedint-model operands are refused so that their reflected method runs (as for the
    real library, whose classes override the reflected operators)."""
    if type(x) is SymInt:
        return x
    if type(x) is int:
        return x
    if type(x) is bool:
        return int(x)
    if isinstance(x, LazyBool):
        return int(bool(x))
    return None


def _lo(x):
    return x if type(x) is int else x.lo


def _hi(x):
    return x if type(x) is int else x.hi


def _w(x):
    return need_bits(x, x) if type(x) is int else x.t.size()


def _ext(x, w):
    if type(x) is int:
        return z3.BitVecVal(x, w)
    return sext(x.t, w)


def _extlow(x, w):
    """x at width w for contexts that are homomorphic in the low bits (+ - * neg shl): a wider
    operand may be truncated because the result is known to fit w bits."""
    if type(x) is int:
        return z3.BitVecVal(x, w)
    if x.t.size() > w:
        return low(x.t, w)
    return sext(x.t, w)


def _shl(a, s):
    if type(a) is int and type(s) is int:
        return a << s
    slo, shi = _lo(s), _hi(s)
    if slo < 0:
        if env().decide(_ext(s, _w(s)) < 0):
            raise ValueError("negative shift count")
        slo = 0
    if shi > 4096:
        raise EngineUnsupported("huge symbolic shift")
    alo, ahi = _lo(a), _hi(a)
    lo = (alo << shi) if alo < 0 else (alo << slo)
    hi = (ahi << shi) if ahi >= 0 else (ahi << slo)
    w = need_bits(lo, hi)
    w = max(w, _w(s) if type(s) is not int else 1)
    if type(s) is int:
        return SymInt.mk(_extlow(a, w) << z3.BitVecVal(s, w), lo, hi)
    return SymInt.mk(_extlow(a, w) << _ext(s, w), lo, hi)


def _shr(a, s):
    if type(a) is int and type(s) is int:
        return a >> s
    slo, shi = _lo(s), _hi(s)
    if slo < 0:
        if env().decide(_ext(s, _w(s)) < 0):
            raise ValueError("negative shift count")
        slo = 0
    alo, ahi = _lo(a), _hi(a)
    lo = (alo >> slo) if alo < 0 else (alo >> shi)
    hi = (ahi >> slo) if ahi >= 0 else (ahi >> shi)
    if type(s) is int:
        wa = a.t.size()
        sh = min(s, wa - 1)  # ashr by >= width-1 is the sign fill, as in Python
        return SymInt.mk(a.t >> z3.BitVecVal(sh, wa), lo, hi)
    w = max(_w(a), _w(s))
    # z3's `>>` on BitVecRef is bvashr; s >= 0 so sign- and zero-extension agree; a shift
    # amount >= w yields the sign fill, which is Python's result for values that fit w bits
    return SymInt.mk(_ext(a, w) >> _ext(s, w), lo, hi)


def _check_zero(b):
    if type(b) is int:
        if b == 0:
            raise ZeroDivisionError("integer division or modulo by zero")
        return
    if b.lo <= 0 <= b.hi:
        if env().decide(b.t == 0):
            raise ZeroDivisionError("integer division or modulo by zero")


def _ubits(x, w):
    return z3.BitVecVal(x, w) if type(x) is int else low(x.t, w) if x.t.size() >= w else z3.ZeroExt(w - x.t.size(), x.t)


def _nonneg(x):
    return _lo(x) >= 0


def _force_nonneg_split(x):
    """Fork on the sign of x when it is not statically known; returns True if x >= 0."""
    if _lo(x) >= 0:
        return True
    if _hi(x) < 0:
        return False
    return env().decide(x.t >= 0)


def truncdiv(a, b):
    """C-style truncating division (models int(a / b) under lemma L-FP)."""
    if type(a) is int and type(b) is int:
        if b == 0:
            raise ZeroDivisionError("division by zero")
        q = abs(a) // abs(b)
        return q if (a >= 0) == (b >= 0) else -q
    _check_zero(b)
    a, b = canon_int(a), canon_int(b)
    if _nonneg(a) and _nonneg(b):
        w = max(_hi(a).bit_length(), _hi(b).bit_length(), 1)
        t = z3.UDiv(_ubits(a, w), _ubits(b, w))
        return SymInt.mk(z3.ZeroExt(1, t), 0, _hi(a))
    w = max(_w(a), _w(b))
    mn = -(1 << (w - 1))
    if _lo(a) == mn and _lo(b) <= -1 <= _hi(b):
        if env().decide(z3.And(_ext(a, w) == z3.BitVecVal(mn, w), _ext(b, w) == z3.BitVecVal(-1, w))):
            return -mn
    t = _ext(a, w) / _ext(b, w)  # bvsdiv: truncates toward zero
    m = max(abs(_lo(a)), abs(_hi(a)))
    lo, hi = max(-m, mn), min(m, -mn - 1)
    if _nonneg(a) and _lo(b) > 0:
        lo = 0
    return SymInt.mk(t, lo, hi)


def truncrem(a, b):
    """C-style remainder (sign of dividend): a - truncdiv(a,b)*b."""
    return a - truncdiv(a, b) * b


def floordiv(a, b):
    if type(a) is int and type(b) is int:
        return a // b
    if type(b) is int and b > 0 and (b & (b - 1)) == 0:
        return a >> (b.bit_length() - 1)
    _check_zero(b)
    a, b = canon_int(a), canon_int(b)
    if _nonneg(a) and _nonneg(b):
        w = max(_hi(a).bit_length(), _hi(b).bit_length(), 1)
        t = z3.UDiv(_ubits(a, w), _ubits(b, w))
        return SymInt.mk(z3.ZeroExt(1, t), 0, _hi(a))
    # signed: floor(a/b) = (a - (a smod b)) sdiv b, exact, one bit wider (no overflow)
    w = max(_w(a), _w(b)) + 1
    A, B = _ext(a, w), _ext(b, w)
    t = (A - (A % B)) / B  # z3py: % is bvsmod, / is bvsdiv
    m = max(abs(_lo(a)), abs(_hi(a)))
    return SymInt.mk(t, -m - 1, m)


def pymod(a, b):
    if type(a) is int and type(b) is int:
        return a % b
    if type(b) is int and b > 0 and (b & (b - 1)) == 0:
        return a & (b - 1)
    _check_zero(b)
    a, b = canon_int(a), canon_int(b)
    if _nonneg(a) and _nonneg(b):
        w = max(_hi(a).bit_length(), _hi(b).bit_length(), 1)
        t = z3.URem(_ubits(a, w), _ubits(b, w))
        return SymInt.mk(z3.ZeroExt(1, t), 0, min(_hi(a), max(_hi(b) - 1, 0)))
    w = max(_w(a), _w(b))
    t = _ext(a, w) % _ext(b, w)  # bvsmod: sign follows the divisor, as in Python
    return SymInt.mk(t, min(_lo(b) + 1, 0), max(_hi(b) - 1, 0))


# --------------------------------------------------------------------------------------
# LazyBool: a symbolic bool leaf that decides on first use
# --------------------------------------------------------------------------------------


class LazyBool:
    __slots__ = ("c", "_v")

    def __init__(self, c):
        self.c = c
        self._v = None

    def __bool__(self):
        if self._v is None:
            self._v = env().decide(self.c)
        return self._v

    def __int__(self):
        return int(bool(self))

    __index__ = __int__

    def __eq__(self, o):
        return bool(self) == o

    def __ne__(self, o):
        return bool(self) != o

    def __hash__(self):
        return hash(bool(self))

    def __and__(self, o):
        return bool(self) & o

    __rand__ = __and__

    def __or__(self, o):
        return bool(self) | o

    __ror__ = __or__

    def __xor__(self, o):
        return bool(self) ^ o

    __rxor__ = __xor__

    def __add__(self, o):
        return int(self) + o

    __radd__ = __add__

    def __str__(self):
        return str(bool(self))

    __repr__ = __str__

    def __deepcopy__(self, memo):
        return self


# --------------------------------------------------------------------------------------
# Env: one path
# --------------------------------------------------------------------------------------

SPLIT_CAP = 64


class Env:
    mode = "sym"

    def __init__(self, engine: "Engine", prefix: list):
        self.engine = engine
        self.prefix = prefix
        self.pos = 0
        self.trace: list = []  # decisions actually taken on this path
        self.solver = engine.solver
        self._in_push = False
        self.model = None  # a model of the current path condition (or None = unknown)
        self.pc_len = 0
        self.inputs: dict = {}  # name -> (term, lo, hi) declared symbolic scalars
        self.ufs: dict = {}  # name -> (FuncDecl, export spec)
        self.uf_apps: dict = {}  # name -> list of argument terms applied
        self.observations: list = []
        self.claims: list = []  # (label, status, info)
        self.text = None  # text side table (symx.text.TextTable), created lazily
        self.text_mode = "placeholder"
        self.notes: dict = {}
        self.cut = None  # reason string if the path was cut by a bound
        self._fresh = 0
        # unwinding bounds for loops inside repository code: {function name: max number of
        # decisions taken from one activation of that function}
        self.site_bounds: dict = {"process_ecall": 16}  # default unwinding bound of the print-string loop
        self._site_counts: dict = {}
        # side solver holding only the path-condition conjuncts over small (index-like) inputs;
        # used to simplify write-log reads (sound: it is weaker than the path condition)
        self._decided: dict = {}
        self._inc_failed = 0
        self.small_vars: set = set()
        self.index_solver = z3.Solver()
        self.index_n = 0
        self._implied_cache: dict = {}

    # ---- symbolic inputs -----------------------------------------------------------------
    def int(self, name: str, lo: int, hi: int):
        """A fresh symbolic int in [lo, hi] (inclusive)."""
        if lo == hi:
            return lo
        if name in self.inputs:
            raise AssertionError("duplicate input " + name)
        w = need_bits(lo, hi)
        t = z3.BitVec(name, w)
        full_lo, full_hi = -(1 << (w - 1)), (1 << (w - 1)) - 1
        self.inputs[name] = (t, lo, hi)
        if w <= 8:
            self.small_vars.add(name)
        if lo != full_lo:
            self._add(t >= z3.BitVecVal(lo, w))
        if hi != full_hi:
            self._add(t <= z3.BitVecVal(hi, w))
        return SymInt(t, lo, hi)

    def uint(self, name: str, bits: int):
        return self.int(name, 0, (1 << bits) - 1)

    def bool(self, name: str) -> LazyBool:
        if name in self.inputs:
            raise AssertionError("duplicate input " + name)
        b = z3.Bool(name)
        self.inputs[name] = (b, 0, 1)
        return LazyBool(b)

    def fresh_name(self, base: str) -> str:
        self._fresh += 1
        return f"{base}!{self._fresh}"

    def uf(self, name: str, dom_bits: int, rng_bits: int, export=None):
        """Uninterpreted function BV[dom]->BV[rng] (rng_bits==0: Bool). `export`: iterable of
        argument values whose images are always written into exported models."""
        if name in self.ufs:
            return self.ufs[name][0]
        rng = z3.BoolSort() if rng_bits == 0 else z3.BitVecSort(rng_bits)
        f = z3.Function(name, z3.BitVecSort(dom_bits), rng)
        self.ufs[name] = (f, dom_bits, rng_bits, list(export) if export is not None else [])
        self.uf_apps[name] = []
        return f

    def apply_uf(self, name: str, arg_term):
        f = self.ufs[name][0]
        self.uf_apps[name].append(arg_term)
        return f(arg_term)

    # ---- path condition ------------------------------------------------------------------
    def _index_only(self, c) -> bool:
        # fast reject: comparisons over wide bit-vectors are never index facts
        t = c
        while z3.is_app(t) and t.decl().kind() == z3.Z3_OP_NOT:
            t = t.arg(0)
        if z3.is_app(t) and t.num_args() >= 1:
            a0 = t.arg(0)
            if z3.is_bv(a0) and a0.size() > 8:
                return False
        todo = [c]
        n = 0
        while todo:
            t = todo.pop()
            n += 1
            if n > 60:
                return False
            if z3.is_const(t):
                if z3.is_bv_value(t) or z3.is_true(t) or z3.is_false(t):
                    continue
                if t.decl().kind() == z3.Z3_OP_UNINTERPRETED and t.decl().name() in self.small_vars:
                    continue
                return False
            if not z3.is_app(t) or t.decl().kind() == z3.Z3_OP_UNINTERPRETED:
                return False
            todo.extend(t.children())
        return True

    def index_implied(self, c):
        """True / False if the index-only part of the path condition implies c / not c; else None."""
        if z3.is_true(c):
            return True
        if z3.is_false(c):
            return False
        key = (c.get_id(), self.index_n)
        r = self._implied_cache.get(key, 0)
        if r != 0:
            return r
        r = None
        if self._index_only(c):
            if self.index_solver.check(z3.Not(c)) == z3.unsat:
                r = True
            elif self.index_solver.check(c) == z3.unsat:
                r = False
        self._implied_cache[key] = r
        _KEEP.append(c)
        return r

    def _add(self, c):
        self.solver.add(c)
        self.pc_len += 1
        if self.small_vars and self._index_only(c):
            self.index_solver.add(c)
            self.index_n += 1
        if self.model is not None:
            try:
                v = self.model.eval(c, model_completion=True)
                if not z3.is_true(v):
                    self.model = None
            except z3.Z3Exception:
                self.model = None

    def _check(self, *assumptions, long=False):
        """Incremental check first (short timeout); on unknown, a fresh one-shot solver with z3's
        full preprocessing pipeline (decides many multiplier queries the incremental core cannot)."""
        eng = self.engine
        t0 = time.perf_counter()
        if self._inc_failed >= 2:
            r = z3.unknown  # the incremental core already gave up twice on this path
        else:
            r = self.solver.check(*assumptions)
            self._model_src = self.solver
            if r == z3.unknown:
                self._inc_failed += 1
                self._unknown_reason = self.solver.reason_unknown()
                if not self._in_push:
                    # never reuse an incremental solver whose check was interrupted by its time
                    # limit: rebuild it from the asserted path condition
                    fresh = z3.SolverFor("QF_UFBV")
                    fresh.set("rlimit", eng.rl(min(eng.timeout_ms, eng.incremental_timeout_ms)))
                    for a in self.solver.assertions():
                        fresh.add(a)
                    self.solver = fresh
                    eng.solver = fresh
                    eng.rebuilds += 1
        if r == z3.unknown:
            s2 = z3.Solver()
            s2.set("rlimit", eng.rl(max(eng.timeout_ms, eng.vc_timeout_ms) if long else eng.timeout_ms))
            for a in self.solver.assertions():
                s2.add(a)
            for a in assumptions:
                s2.add(a)
            r = s2.check()
            self._model_src = s2
            self._unknown_reason = s2.reason_unknown() if r == z3.unknown else None
            eng.fallbacks += 1
        eng.solver_time += time.perf_counter() - t0
        eng.queries += 1
        return r

    def _last_model(self):
        return self._model_src.model()

    def _ensure_model(self):
        if self.model is None:
            r = self._check()
            if r == z3.sat:
                self.model = self._last_model()
            elif r == z3.unsat:
                raise PathPruned()
            else:
                raise SolverUnknown("path condition: " + self.solver.reason_unknown())

    def assume(self, c):
        if isinstance(c, bool):
            if not c:
                raise PathPruned()
            return
        self._add(c)
        self._ensure_model()

    def decide(self, c) -> bool:
        """Fork on the z3 Bool c; returns the side taken on this path."""
        if isinstance(c, bool):
            return c
        if z3.is_true(c):
            return True
        if z3.is_false(c):
            return False
        if self.site_bounds:
            self._site_check()
        cid = c.get_id()
        hit = self._decided.get(cid)
        if hit is not None:
            # the same condition (structurally) was decided earlier on this path
            return hit[0]
        v = self._decide(c)
        self._decided[cid] = (v, c)
        return v

    def _decide(self, c) -> bool:
        if self.pos < len(self.prefix):
            kind, v = self.prefix[self.pos]
            if kind != "b":
                raise AssertionError("non-deterministic harness (expected value split)")
            self.pos += 1
            self.trace.append(("b", v))
            self._add(c if v else z3.Not(c))
            return v
        self._ensure_model()
        v = z3.is_true(self.model.eval(c, model_completion=True))
        other = z3.Not(c) if v else c
        r = self._check(other)
        if r == z3.unknown:
            if self.engine.cut_on_undecided:
                raise PathCut("feasibility of a branch undecided within the solver timeout")
            raise SolverUnknown("decide: " + self.solver.reason_unknown())
        self.pos += 1
        if r == z3.sat:
            self.engine.push_alternative(self.trace + [("b", not v)])
        self.trace.append(("b", v))
        self.prefix = self.prefix + [("b", v)]
        self._add(c if v else z3.Not(c))
        return v

    def _site_check(self):
        import sys

        f = sys._getframe(2)
        depth = 0
        while f is not None and depth < 40:
            name = f.f_code.co_name
            b = self.site_bounds.get(name)
            if b is not None:
                k = id(f)
                ent = self._site_counts.get(k)
                if ent is None or ent[0] is not f:
                    ent = [f, 0]
                    self._site_counts[k] = ent
                ent[1] += 1
                if ent[1] > b:
                    raise PathCut("unwinding bound %d of %s exceeded" % (b, name))
                return
            f = f.f_back
            depth += 1

    def concretize(self, x) -> int:
        """Complete case split of a symbolic int over all feasible values."""
        if type(x) is int:
            return x
        if self.pos < len(self.prefix):
            kind, v = self.prefix[self.pos]
            if kind != "v":
                raise AssertionError("non-deterministic harness (expected bool decision)")
            self.pos += 1
            self.trace.append(("v", v))
            self._add(x.t == z3.BitVecVal(v, x.t.size()))
            return v
        vals = []
        self.solver.push()
        self._in_push = True
        try:
            while True:
                r = self._check()
                if r == z3.unsat:
                    break
                if r != z3.sat:
                    raise SolverUnknown("concretize: " + self.solver.reason_unknown())
                m = self._last_model()
                bv = m.eval(x.t, model_completion=True)
                v = bv.as_signed_long()
                vals.append(v)
                if len(vals) > SPLIT_CAP:
                    raise EngineUnsupported("case split over more than %d values" % SPLIT_CAP)
                self.solver.add(x.t != bv)
        finally:
            self._in_push = False
            self.solver.pop()
        if not vals:
            raise PathPruned()
        vals.sort()
        self.pos += 1
        for v in vals[1:]:
            self.engine.push_alternative(self.trace + [("v", v)])
        v = vals[0]
        self.trace.append(("v", v))
        self.prefix = self.prefix + [("v", v)]
        self.model = None
        self._add(x.t == z3.BitVecVal(v, x.t.size()))
        return v

    def choose(self, n: int, label="choice") -> int:
        """Structural nondeterminism: explore every k in range(n) (no solver involved)."""
        if n <= 1:
            return 0
        if self.pos < len(self.prefix):
            kind, v = self.prefix[self.pos]
            if kind != "c":
                raise AssertionError("non-deterministic harness (expected choice)")
            self.pos += 1
            self.trace.append(("c", v))
            return v
        self.pos += 1
        for v in range(1, n):
            self.engine.push_alternative(self.trace + [("c", v)])
        self.trace.append(("c", 0))
        self.prefix = self.prefix + [("c", 0)]
        return 0

    # ---- claims --------------------------------------------------------------------------
    def claim(self, label: str, cond, info=None):
        """Verification condition: pc => cond."""
        eng = self.engine
        eng.vcs += 1
        if isinstance(cond, bool):
            if cond:
                self.claims.append((label, "ok", None))
                return True
            self._ensure_model()
            self.claims.append((label, "fail", self.export_model(info)))
            return False
        if z3.is_true(cond):
            self.claims.append((label, "ok", None))
            return True
        r = self._check(z3.Not(cond), long=True)
        if r == z3.unknown:
            # last resort before declaring the VC inconclusive: one more one-shot attempt with a
            # three times longer limit (a loaded machine must not turn a provable VC into exit 2)
            s3 = z3.Solver()
            s3.set("rlimit", eng.rl(3 * max(eng.timeout_ms, eng.vc_timeout_ms)))
            for a_ in self.solver.assertions():
                s3.add(a_)
            s3.add(z3.Not(cond))
            r = s3.check()
            self._model_src = s3
            eng.queries += 1
        eng.solver_vcs += 1
        if r == z3.sat and self._model_src is self.solver:
            # a counterexample from the incremental core is confirmed by a fresh one-shot solver
            # before it is believed (an interrupted incremental core has produced wrong answers)
            s4 = z3.Solver()
            s4.set("rlimit", eng.rl(3 * max(eng.timeout_ms, eng.vc_timeout_ms)))
            for a_ in self.solver.assertions():
                s4.add(a_)
            s4.add(z3.Not(cond))
            r4 = s4.check()
            eng.queries += 1
            if r4 == z3.sat:
                self._model_src = s4
            elif r4 == z3.unsat:
                eng.sat_not_confirmed += 1
                r = z3.unsat
            else:
                r = z3.unknown
        if r != z3.unknown and eng.xcheck_every and eng.solver_vcs % eng.xcheck_every == 1 % eng.xcheck_every:
            self._xcheck(label, cond, "unsat" if r == z3.unsat else "sat")
        if r == z3.unsat:
            self.claims.append((label, "ok", None))
            return True
        if r == z3.sat:
            m = self._last_model()
            self.claims.append((label, "fail", self.export_model(info, m)))
            return False
        self.claims.append((label, "unknown", self.solver.reason_unknown()))
        return False

    def _xcheck(self, label, cond, verdict):
        """Second solver: the VC (path condition and negated claim) is exported as SMT-LIB2 and
        re-decided by the cvc5 binary. Agreement / no answer within the limit are counted; a
        different answer or an `(error` line is a harness problem (never a pass)."""
        import subprocess
        import tempfile

        eng = self.engine
        st = eng.xstats
        s2 = z3.Solver()
        for a_ in self.solver.assertions():
            s2.add(a_)
        s2.add(z3.Not(cond))
        txt = "(set-logic ALL)\n" + s2.to_smt2()
        fd, path = tempfile.mkstemp(suffix=".smt2", prefix="symx-vc-")
        t0 = time.perf_counter()
        try:
            with os.fdopen(fd, "w") as fh:
                fh.write(txt)
            try:
                p = subprocess.run([eng.xcheck_bin, "--tlimit=%d" % eng.xcheck_ms, path], capture_output=True, text=True, timeout=eng.xcheck_ms / 1000 + 20)
                out = (p.stdout or "") + (p.stderr or "")
            except (OSError, subprocess.TimeoutExpired) as ex:
                out = "timeout-or-missing: %r" % (ex,)
        finally:
            try:
                os.unlink(path)
            except OSError:
                pass
        st["time_s"] += time.perf_counter() - t0
        st["submitted"] += 1
        first = out.strip().splitlines()[0].strip() if out.strip() else ""
        if "(error" in out:
            st["errors"].append("%s: %s" % (label, out.strip()[:300]))
        elif first in ("sat", "unsat"):
            if first == verdict:
                st["agree"] += 1
            else:
                st["disagree"].append("%s: z3 %s, cvc5 %s" % (label, verdict, first))
        else:
            st["no_answer"] += 1

    def claim_eq(self, label: str, a, b, info=None):
        from .compare import sym_eq

        return self.claim(label, sym_eq(a, b), info)

    def observe(self, label: str, value):
        self.observations.append((label, value))

    # ---- models --------------------------------------------------------------------------
    def export_model(self, info=None, m=None):
        """JSON-able model: scalar inputs, UF tables at applied/exported points, decisions."""
        if m is None:
            self._ensure_model()
            m = self.model
        out = {"inputs": {}, "ufs": {}, "trace": [list(d) for d in self.trace]}
        for name, (t, lo, hi) in self.inputs.items():
            v = m.eval(t, model_completion=True)
            if z3.is_bool(v):
                out["inputs"][name] = bool(z3.is_true(v))
            else:
                out["inputs"][name] = v.as_signed_long()
        for name, (f, db, rb, export) in self.ufs.items():
            tab = {}
            for a in export:
                v = m.eval(f(z3.BitVecVal(a, db)), model_completion=True)
                tab[str(a)] = bool(z3.is_true(v)) if rb == 0 else v.as_long()
            for at in self.uf_apps[name]:
                a = m.eval(at, model_completion=True).as_long()
                v = m.eval(f(z3.BitVecVal(a, db)), model_completion=True)
                tab[str(a)] = bool(z3.is_true(v)) if rb == 0 else v.as_long()
            out["ufs"][name] = tab
        if info is not None:
            out["info"] = info
        if self.text is not None:
            out["sentinels"] = self.text.export_sentinels(m)
        return out

    def eval(self, v, m=None):
        """Evaluate a symbolic value (SymInt / fixedint model / containers / text) to a
        concrete Python value under model m."""
        from .compare import concretise

        if m is None:
            self._ensure_model()
            m = self.model
        return concretise(v, m, self)


class ConcEnv:
    """Concrete twin of Env: the same harness code runs on plain ints taken from a model."""

    mode = "conc"

    def __init__(self, model: dict):
        self.m = model
        self.observations: list = []
        self.claims: list = []
        self.notes: dict = {}
        self.cut = None
        self.text = None
        self.text_mode = "native"
        self._trace = list(model.get("trace", []))
        self._tpos = 0
        self._fresh = 0
        self.site_bounds: dict = {}

    def int(self, name, lo, hi):
        if lo == hi:
            return lo
        return int(self.m["inputs"][name])

    def uint(self, name, bits):
        return self.int(name, 0, (1 << bits) - 1)

    def bool(self, name):
        return bool(self.m["inputs"][name])

    def fresh_name(self, base):
        self._fresh += 1
        return f"{base}!{self._fresh}"

    def uf(self, name, dom_bits, rng_bits, export=None):
        return None

    def uf_value(self, name, arg: int):
        tab = self.m["ufs"].get(name, {})
        k = str(arg)
        if k in tab:
            return tab[k]
        self.notes.setdefault("uf_default", []).append((name, arg))
        return 0

    def assume(self, c):
        if not c:
            raise PathPruned()

    def decide(self, c):
        return bool(c)

    def concretize(self, x):
        return int(x)

    def choose(self, n, label="choice"):
        if n <= 1:
            return 0
        # structural choices are replayed from the recorded trace
        while self._tpos < len(self._trace):
            kind, v = self._trace[self._tpos]
            self._tpos += 1
            if kind == "c":
                return v
        raise AssertionError("concrete replay ran out of recorded choices")

    def claim(self, label, cond, info=None):
        ok = bool(cond)
        self.claims.append((label, "ok" if ok else "fail", info))
        return ok

    def claim_eq(self, label, a, b, info=None):
        from .compare import conc_eq

        return self.claim(label, conc_eq(a, b), info)

    def observe(self, label, value):
        from .compare import plain

        self.observations.append((label, plain(value)))


# --------------------------------------------------------------------------------------
# Engine: explores all paths of a harness
# --------------------------------------------------------------------------------------


class PathResult:
    __slots__ = ("trace", "status", "claims", "observations", "model", "error", "cut", "notes", "outcome")

    def __init__(self):
        self.trace = None
        self.status = "ok"  # ok | pruned | unknown | unsupported | error
        self.claims = []
        self.observations = None
        self.model = None
        self.error = None
        self.cut = None
        self.notes = {}
        self.outcome = None


class Engine:
    def __init__(self, timeout_ms: int = 30000, max_paths: int = 200000, want_models: int = 1, incremental_timeout_ms: int = 800):
        self.timeout_ms = timeout_ms
        self.incremental_timeout_ms = incremental_timeout_ms
        self.cut_on_undecided = False
        self.vc_timeout_ms = 40000
        self.max_paths = max_paths
        self.want_models = want_models  # export a model for every k-th completed path (0 = never)
        self.solver = None
        self.queue: list = []
        self.solver_time = 0.0
        self.fallbacks = 0
        self.rebuilds = 0
        self.sat_not_confirmed = 0
        self.queries = 0
        self.vcs = 0
        self.paths = 0
        # second-solver re-decision of every k-th VC (0 = off)
        self.xcheck_every = 0
        self.solver_vcs = 0
        self.xcheck_ms = 5000
        self.xcheck_bin = "cvc5"
        self.xstats = {"submitted": 0, "agree": 0, "no_answer": 0, "disagree": [], "errors": [], "time_s": 0.0}

    # Solver limits are z3 resource limits (deterministic work units), not wall-clock timeouts: a
    # timer that fires while another call is already running on the same z3 context has produced
    # lost assertions and wrong branch verdicts on a loaded machine.  RL_PER_MS converts the
    # millisecond figures used throughout into resource units (measured: 3.4-5.5 M units/s).
    RL_PER_MS = 4000

    def rl(self, ms):
        return max(1, min(int(ms * self.RL_PER_MS), 4_000_000_000))

    def push_alternative(self, prefix):
        self.queue.append(prefix)

    def explore(self, harness, *args, on_path=None, **kw):
        """Run harness(env, *args) on every feasible path. Returns list[PathResult]."""
        from . import text as _text

        results = []
        self.queue = [[]]
        z3.set_param("model.completion", True)
        t_start = time.time()
        while self.queue:
            prefix = self.queue.pop()
            if getattr(self, "max_wall_s", None) and time.time() - t_start > self.max_wall_s:
                # best-effort job: the rest of the decision tree is left unexplored and says so
                r = PathResult()
                r.status = "cutoff"
                r.error = "job wall budget of %d s exhausted (exploration incomplete)" % self.max_wall_s
                results.append(r)
                self.incomplete = len(self.queue) + 1
                break
            if self.paths >= self.max_paths:
                r = PathResult()
                r.status = "unsupported"
                r.error = "path budget exhausted (%d)" % self.max_paths
                results.append(r)
                break
            self.paths += 1
            reset_memo()
            self.solver = z3.SolverFor("QF_UFBV")
            self.solver.set("rlimit", self.rl(min(self.timeout_ms, self.incremental_timeout_ms)))
            e = Env(self, list(prefix))
            set_env(e)
            r = PathResult()
            try:
                r.outcome = harness(e, *args, **kw)
                if e.pos < len(e.prefix):
                    raise AssertionError("non-deterministic harness: unused decisions")
                r.status = "ok"
            except PathPruned:
                r.status = "pruned"
            except PathCut as ex:
                r.status = "cutoff"
                r.error = str(ex)
            except SolverUnknown as ex:
                r.status = "unknown"
                r.error = str(ex)
            except EngineUnsupported as ex:
                r.status = "unsupported"
                r.error = str(ex)
            except EngineSignal as ex:  # pragma: no cover
                r.status = "error"
                r.error = repr(ex)
            except Exception as ex:
                import traceback

                r.status = "error"
                r.error = "".join(traceback.format_exception(type(ex), ex, ex.__traceback__)[-6:])
            if r.status == "ok" and self.solver is not None and len(e.solver.assertions()) != e.pc_len:
                r.status = "error"
                r.error = "solver holds %d assertions, the path added %d (solver glitch)" % (len(e.solver.assertions()), e.pc_len)
            r.trace = list(e.trace)
            r.claims = e.claims
            r.cut = e.cut
            r.notes = e.notes
            if r.status == "ok":
                want = self.want_models and (self.paths % self.want_models == 0)
                if want:
                    try:
                        e._ensure_model()
                        r.model = e.export_model()
                        r.observations = [(l, e.eval(v)) for (l, v) in e.observations]
                    except EngineSignal as ex:
                        r.status = "unknown"
                        r.error = "model export: " + repr(ex)
            set_env(None)
            if on_path is not None:
                on_path(r)
            results.append(r)
        self.solver = None
        return results
