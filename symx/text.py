"""Symbolic text: real `str` objects whose private-use code points stand for z3 terms.

* span placeholder  U+E000 <id digits> U+E001 : an opaque rendering of a symbolic int by a
  trusted CPython renderer (str / format spec / bin / hex / float32 text).
* unit placeholder  one code point from U+F0000.. : exactly one character whose identity is a
  symbolic digit (fixed-width zero-padded renderings, chr()).
* sentinel literal  a reserved digit string that real pyparsing tokenises as a number and the
  rebound `int()` maps back to the term (used when numbers re-enter the assembler).
"""
from __future__ import annotations

import builtins
import re
import struct

import z3

from . import core
from .core import SymInt, EngineUnsupported

SPAN_START = "\ue000"
SPAN_END = "\ue001"
UNIT_BASE = 0xF0000
UNIT_LIMIT = 0xFFFFD

_FIXED = re.compile(r"^0(\d+)([bXxd])$")

SENT_DEC = re.compile(r"^73(\d{5})37$")
SENT_HEX = re.compile(r"^5e(\d{4})a1$")


class TextTable:
    def __init__(self):
        self.spans: list = []  # (spec, value)
        self.units: list = []  # (kind, value)
        self.sent: dict = {}  # key string -> (value, base)
        self.nsent = 0
        self.memo: dict = {}

    def span(self, spec: str, value) -> str:
        self.spans.append((spec, value))
        return SPAN_START + str(len(self.spans) - 1) + SPAN_END

    def unit(self, kind: str, value) -> str:
        if UNIT_BASE + len(self.units) > UNIT_LIMIT:
            raise EngineUnsupported("too many unit placeholders")
        self.units.append((kind, value))
        return chr(UNIT_BASE + len(self.units) - 1)

    def sentinel(self, value, base: int) -> str:
        """value must be non-negative on this path."""
        self.nsent += 1
        if base == 10:
            key = "73%05d37" % self.nsent
            self.sent[key] = (value, 10)
            return key
        if base == 16:
            key = "5e%04da1" % self.nsent
            self.sent[key] = (value, 16)
            return "0x" + key
        raise AssertionError(base)

    def export_sentinels(self, m):
        out = {}
        for k, (v, base) in self.sent.items():
            out[k] = core.env().eval(v, m) if core.active() else None
        return out


def table() -> TextTable:
    e = core.env()
    if e.text is None:
        e.text = TextTable()
    return e.text


_SENT_ANY = re.compile(r"73\d{5}37|5e\d{4}a1")


def has_placeholder(s: str) -> bool:
    for ch in s:
        o = ord(ch)
        if o == 0xE000 or o == 0xE001 or UNIT_BASE <= o <= UNIT_LIMIT:
            return True
    if core.active() and core.env().text is not None and core.env().text.sent:
        tt = core.env().text
        for m in _SENT_ANY.finditer(s):
            if m.group(0) in tt.sent:
                return True
    return False


def decode(s: str):
    """-> list of ('lit', ch) | ('span', spec, value) | ('unit', kind, value)."""
    out = []
    i = 0
    n = len(s)
    tt = core.env().text if core.active() else None
    while i < n:
        ch = s[i]
        o = ord(ch)
        if tt is not None and tt.sent and ch in "75":
            m = _SENT_ANY.match(s, i)
            if m and m.group(0) in tt.sent:
                value, base = tt.sent[m.group(0)]
                out.append(("span", "sentinel%d" % base, value))
                i = m.end()
                continue
        if o == 0xE000:
            j = s.index(SPAN_END, i)
            spec, value = tt.spans[builtins.int(s[i + 1 : j])]
            out.append(("span", spec, value))
            i = j + 1
        elif UNIT_BASE <= o <= UNIT_LIMIT and tt is not None and o - UNIT_BASE < len(tt.units):
            kind, value = tt.units[o - UNIT_BASE]
            out.append(("unit", kind, value))
            i += 1
        else:
            out.append(("lit", ch))
            i += 1
    return out


_DIG = {"bin": "01", "hexU": "0123456789ABCDEF", "hexL": "0123456789abcdef", "dec": "0123456789"}


def render_concrete(s: str, evalf) -> str:
    """Replace every placeholder by the text CPython would have produced for the model value."""
    parts = []
    for tok in decode(s):
        if tok[0] == "lit":
            parts.append(tok[1])
        elif tok[0] == "span":
            v = evalf(tok[2])
            parts.append(render_value(v, tok[1]))
        else:
            d = evalf(tok[2])
            if tok[1] == "chr":
                parts.append(chr(d))
            else:
                parts.append(_DIG[tok[1]][d])
    return "".join(parts)


def render_value(v: int, spec: str) -> str:
    if spec == "sentinel10":
        return format(v, "d")
    if spec == "sentinel16":
        return format(v, "x")
    if spec == "f32":
        return str(struct.unpack(">f", v.to_bytes(4, "big"))[0])
    return format(v, spec)


# ---- rendering of SymInt --------------------------------------------------------------------


def render_int(x: SymInt, spec: str) -> str:
    e = core.env()
    tt = table()
    if e.text_mode != "sentinel":
        # rendering is a function of (value term, spec): reuse the text produced before
        key = (x.t.get_id(), spec)
        hit = tt.memo.get(key)
        if hit is not None:  # hit[0] keeps the AST alive, so equal ids mean the same term
            return hit[1]
        r = _render_int(e, tt, x, spec)
        tt.memo[key] = (x.t, r)
        return r
    return _render_int(e, tt, x, spec)


def _render_int(e, tt, x: SymInt, spec: str) -> str:
    if e.text_mode == "sentinel" and spec in ("", "d"):
        if x.lo < 0 and (x.hi < 0 or e.decide(x.t < 0)):
            return "-" + tt.sentinel(-x, 10)
        return tt.sentinel(x, 10)
    if e.text_mode == "sentinel" and spec in ("#x",):
        if x.lo < 0 and (x.hi < 0 or e.decide(x.t < 0)):
            return "-" + tt.sentinel(-x, 16)
        return tt.sentinel(x, 16)
    m = _FIXED.match(spec)
    if m:
        n = builtins.int(m.group(1))
        k = m.group(2)
        base = {"b": 2, "X": 16, "x": 16, "d": 10}[k]
        if x.lo >= 0 and x.hi < base**n and base != 10:
            kind = {"b": "bin", "X": "hexU", "x": "hexL"}[k]
            bits = 1 if base == 2 else 4
            chars = []
            w = x.t.size()
            for pos in range(n - 1, -1, -1):
                lo_b = bits * pos
                hi_b = min(lo_b + bits - 1, w - 2)  # bit w-1 is the (zero) sign bit of a non-negative value
                if hi_b < lo_b:
                    chars.append("0")
                    continue
                dt = z3.Extract(hi_b, lo_b, x.t)
                d = SymInt(z3.ZeroExt(bits + 1 - dt.size(), dt), 0, base - 1)
                chars.append(tt.unit(kind, d))
            return "".join(chars)
    if spec in ("", "d", "X", "x", "b", "#x", "#b", "#X") or m:
        return tt.span(spec, x)
    raise EngineUnsupported("format spec %r on symbolic int" % spec)


def sym_chr(x):
    if getattr(type(x), "_symx_fixedint_model", False):
        x = x._v
    if type(x) is builtins.int:
        return builtins.chr(x)
    if isinstance(x, SymInt):
        if x.lo < 0 or x.hi > 0x10FFFF:
            raise EngineUnsupported("chr() of possibly out-of-range symbolic int")
        return table().unit("chr", x)
    return builtins.chr(x)


def sym_bin(x):
    if isinstance(x, SymInt):
        return render_int(x, "#b")
    if getattr(type(x), "_symx_fixedint_model", False):
        return sym_bin(x._v)
    return builtins.bin(x)


def sym_hex(x):
    if isinstance(x, SymInt):
        return render_int(x, "#x")
    if getattr(type(x), "_symx_fixedint_model", False):
        return sym_hex(x._v)
    return builtins.hex(x)


class SymBytes:
    def __init__(self, value, length, byteorder):
        self.value = value
        self.length = length
        self.byteorder = byteorder

    def __len__(self):
        return self.length


class SymFloat32:
    def __init__(self, bits):
        self.bits = bits

    def __str__(self):
        return table().span("f32", self.bits)

    __repr__ = __str__

    def _unsup(self, *a, **k):
        raise EngineUnsupported("float arithmetic on symbolic data")

    __add__ = __radd__ = __sub__ = __mul__ = __truediv__ = __lt__ = __gt__ = __eq__ = __float__ = _unsup
    __hash__ = _unsup


def sym_unpack(fmt, data):
    if isinstance(data, SymBytes):
        if fmt == ">f" and data.length == 4 and data.byteorder == "big":
            return (SymFloat32(data.value),)
        raise EngineUnsupported("struct.unpack(%r) on symbolic bytes" % fmt)
    return struct.unpack(fmt, data)


# ---- int() on text ------------------------------------------------------------------------------


def parse_int_text(s: str, base):
    """int(str, base) with sentinel support.  Returns NotImplemented if s is ordinary text."""
    if not core.active() or core.env().text is None:
        return NotImplemented
    tt = core.env().text
    t = s.strip()
    neg = False
    if t[:1] in "+-":
        neg = t[0] == "-"
        t = t[1:]
    body = t
    lit_base = 10
    if t[:2] in ("0x", "0X"):
        body, lit_base = t[2:], 16
    ent = tt.sent.get(body)
    if ent is None:
        if t[:1] == SPAN_START and t[-1:] == SPAN_END and t[1:-1].isdigit() and base in (None, 10, 0):
            spec, value = tt.spans[builtins.int(t[1:-1])]
            if spec in ("", "d"):
                # the decimal rendering of a symbolic int read back: int(str(x)) == x
                return -value if neg else value
        if has_placeholder(s):
            raise EngineUnsupported("int() of text containing placeholders")
        return NotImplemented
    value, sbase = ent
    # the spelling decides what CPython would compute; a sentinel registered for base b must be
    # read with a base argument that denotes b for this spelling, otherwise the stand-in is invalid
    if base in (None, 10):
        ok = lit_base == 10 and sbase == 10
    elif base == 0:
        ok = lit_base == sbase
    elif base == 16:
        ok = sbase == 16
    else:
        ok = False
    if not ok:
        core.env().notes.setdefault("sentinel_base_mismatch", []).append((s, base))
        raise SentinelBaseMismatch("literal %r read with base %r" % (s, base))
    return -value if neg else value


class SentinelBaseMismatch(Exception):
    """The repository converted a stand-in literal with a base that does not fit its spelling."""
