"""Install symx under the repository code: replace the `fixedint` dependency by the model and
rebind, per loaded `architecture_simulator.*` module, the builtins that cannot return proxies
(`int`, `type`, `chr`, `bin`, `hex`, and `struct.unpack` where imported).  /repo is not modified.
On concrete arguments every rebound builtin behaves exactly like the original."""
from __future__ import annotations

import builtins
import importlib
import os
import sys

from . import core
from .core import SymInt, FloatQuot, LazyBool
from . import text as _text

REAL_FIXEDINT = None
INSTALLED = False


class _IntMeta(type):
    def __call__(cls, *args, **kw):
        return _sym_int_call(*args, **kw)

    def __instancecheck__(cls, inst):
        return isinstance(inst, (builtins.int, SymInt))

    def __subclasscheck__(cls, sub):
        return issubclass(sub, builtins.int) or sub is SymInt

    def __or__(cls, other):
        return builtins.int | other

    def __ror__(cls, other):
        return other | builtins.int

    def __getattr__(cls, name):
        return getattr(builtins.int, name)

    def __repr__(cls):
        return "<class 'int'>"

    def __eq__(cls, other):
        return other is cls or other is builtins.int

    def __hash__(cls):
        return hash(builtins.int)


class sym_int(metaclass=_IntMeta):
    """Stand-in for the builtin `int` inside repository modules."""


def _sym_int_call(x=0, base=None, **kw):
    if "base" in kw:
        base = kw["base"]
    if base is None:
        tx = type(x)
        if tx is builtins.int or tx is SymInt:
            return x
        if getattr(tx, "_symx_fixedint_model", False):
            return x._v
        if tx is FloatQuot:
            return x.trunc()
        if tx is LazyBool:
            return builtins.int(bool(x))
        if tx is str:
            r = _text.parse_int_text(x, None)
            if r is not NotImplemented:
                return r
            return builtins.int(x)
        if hasattr(tx, "__int__") and not isinstance(x, (builtins.int, builtins.float)):
            return x.__int__()
        return builtins.int(x)
    if isinstance(x, str):
        r = _text.parse_int_text(x, base)
        if r is not NotImplemented:
            return r
    return builtins.int(x, base)


class _TypeMeta(type):
    def __call__(cls, *args, **kw):
        if len(args) == 1 and not kw:
            x = args[0]
            tx = builtins.type(x)
            if tx is builtins.int or tx is SymInt:
                return sym_int
            if tx is LazyBool:
                return builtins.bool
            return tx
        return builtins.type(*args, **kw)

    def __getitem__(cls, item):
        return builtins.type[item]

    def __instancecheck__(cls, inst):
        return isinstance(inst, builtins.type)

    def __or__(cls, other):
        return builtins.type | other

    def __ror__(cls, other):
        return other | builtins.type


class sym_type(metaclass=_TypeMeta):
    """Stand-in for the builtin `type` inside repository modules (type(x) of a SymInt is int)."""


REBIND = {
    "int": sym_int,
    "type": sym_type,
    "chr": _text.sym_chr,
    "bin": _text.sym_bin,
    "hex": _text.sym_hex,
}

REPO_MODULES = [
    "architecture_simulator.settings.settings",
    "architecture_simulator.util.integer_representations",
    "architecture_simulator.util.integer_manipulation",
    "architecture_simulator.util.fixedint_12",
    "architecture_simulator.isa.instruction",
    "architecture_simulator.isa.parser",
    "architecture_simulator.isa.parser_exceptions",
    "architecture_simulator.isa.riscv.instruction_types",
    "architecture_simulator.isa.riscv.rv32i_instructions",
    "architecture_simulator.isa.riscv.riscv_parser",
    "architecture_simulator.isa.toy.toy_instructions",
    "architecture_simulator.isa.toy.toy_parser",
    "architecture_simulator.isa.toy.toy_micro_program",
    "architecture_simulator.uarch.memory.memory",
    "architecture_simulator.uarch.memory.cache",
    "architecture_simulator.uarch.memory.decoded_address",
    "architecture_simulator.uarch.memory.replacement_strategies",
    "architecture_simulator.uarch.memory.base_cache_memory_system",
    "architecture_simulator.uarch.memory.write_back_memory_system",
    "architecture_simulator.uarch.memory.write_through_memory_system",
    "architecture_simulator.uarch.memory.instruction_memory",
    "architecture_simulator.uarch.memory.instruction_memory_cache_system",
    "architecture_simulator.uarch.riscv.pipeline",
    "architecture_simulator.uarch.riscv.stages",
    "architecture_simulator.uarch.riscv.pipeline_registers",
    "architecture_simulator.uarch.riscv.register_file",
    "architecture_simulator.uarch.riscv.riscv_architectural_state",
    "architecture_simulator.uarch.toy.toy_architectural_state",
    "architecture_simulator.simulation.simulation",
    "architecture_simulator.simulation.riscv_simulation",
    "architecture_simulator.simulation.toy_simulation",
    "architecture_simulator.simulation.runtime_errors",
]


def install(symbolic: bool = True):
    """Import the repository (from /repo's working tree). With symbolic=True the fixedint model
    and the rebound builtins are put in place first; with False the repository runs untouched
    (concrete oracle process)."""
    global REAL_FIXEDINT, INSTALLED
    if INSTALLED:
        return
    if any(n.startswith("architecture_simulator") for n in sys.modules):
        raise RuntimeError("repository imported before symx.install()")
    repo = os.environ.get("VERIF_REPO", "/repo")
    if repo not in sys.path:
        sys.path.insert(0, repo)
    if symbolic:
        import fixedint as real

        REAL_FIXEDINT = real
        for n in [n for n in sys.modules if n == "fixedint" or n.startswith("fixedint.")]:
            sys.modules["_real_" + n] = sys.modules.pop(n)
        from . import fixedint_model

        mod = fixedint_model.build_module()
        sys.modules["fixedint"] = mod
        base = type(sys)("fixedint.base")
        base.FixedInt = mod.FixedInt
        base.MutableFixedInt = mod.MutableFixedInt
        sys.modules["fixedint.base"] = base
    for n in REPO_MODULES:
        importlib.import_module(n)
    import architecture_simulator

    root = os.path.realpath(os.path.dirname(architecture_simulator.__file__))
    if not root.startswith(os.path.realpath(repo)):
        raise RuntimeError("architecture_simulator imported from %s, not from %s" % (root, repo))
    if symbolic:
        for name, m in list(sys.modules.items()):
            if name.startswith("architecture_simulator") and m is not None:
                d = m.__dict__
                for k, v in REBIND.items():
                    d[k] = v
                if "unpack" in d:
                    d["unpack"] = _text.sym_unpack
    INSTALLED = True
    from . import globalsnap

    globalsnap.init()
