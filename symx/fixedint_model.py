"""A model of the third-party `fixedint` package (0.2.0, immutable classes only) whose payload
is an int or a SymInt.  Installed as sys.modules['fixedint'] before the repository is imported.

It reproduces: FixedInt(width, signed, mutable=False) class factory with caching, the aliases
Int8..UInt64, C conversion rules of _arith_convert, rectification, unary/binary/reflected
operators, comparisons, hashing, slicing x[a:b], str/repr/format.  Validated differentially
against the real package on every check run (symx.selfcheck)."""
from __future__ import annotations

import builtins
import sys
import types

import z3

from . import core
from .core import SymInt, FloatQuot, low, sext

_cache: dict = {}


def _value_of(x):
    """int()-like conversion of a constructor/operator argument."""
    if type(x) is SymInt or type(x) is builtins.int:
        return x
    if isinstance(x, FixedIntBase):
        return x._v
    if type(x) is builtins.bool:
        return builtins.int(x)
    if isinstance(x, FloatQuot):
        return x.trunc()
    if isinstance(x, core.LazyBool):
        return builtins.int(x)
    if isinstance(x, builtins.float):
        return builtins.int(x)
    if isinstance(x, builtins.int):
        return builtins.int(x)
    if hasattr(x, "__int__"):
        return x.__int__()
    raise TypeError("int() argument must be a string or a number, not %r" % type(x).__name__)


class _Meta(type):
    def __call__(cls, *args, **kw):
        if cls is FixedInt or cls is MutableFixedInt:
            return _make_class(cls, *args, **kw)
        return type.__call__(cls, *args, **kw)


def _make_class(factory, width, signed=True, mutable=None):
    signed = bool(signed)
    if mutable is None:
        mutable = factory is MutableFixedInt
    if mutable:
        raise core.EngineUnsupported("MutableFixedInt is not modelled")
    key = (width, signed)
    c = _cache.get(key)
    if c is not None:
        return c
    if signed:
        mn, mx = -1 << (width - 1), (1 << (width - 1)) - 1
    else:
        mn, mx = 0, (1 << width) - 1
    name = "".join(["U" * (not signed), "Int", str(width)])
    c = _Meta(name, (FixedInt,), {"width": width, "signed": signed, "mutable": False, "minval": mn, "maxval": mx, "__slots__": ()})
    _cache[key] = c
    return c


class FixedIntBase(metaclass=_Meta):
    __slots__ = ("_v",)
    _symx_fixedint_model = True

    def __init__(self, val=0, base=None):
        if base is not None:
            from .install import sym_int

            v = sym_int(val, base)
        elif isinstance(val, str):
            from .install import sym_int

            v = sym_int(val)
        else:
            v = _value_of(val)
        object.__setattr__(self, "_v", type(self)._rectify(v))

    def __setattr__(self, k, v):
        raise AttributeError("immutable")

    @classmethod
    def _rectify(cls, v):
        w = cls.width
        if type(v) is builtins.int:
            if cls.signed:
                return (v & ((1 << (w - 1)) - 1)) - (v & (1 << (w - 1)))
            return v & ((1 << w) - 1)
        # SymInt
        if cls.minval <= v.lo and v.hi <= cls.maxval:
            return v
        if cls.signed:
            t = low(v.t, w) if v.t.size() >= w else sext(v.t, w)
            return SymInt.mk(t, cls.minval, cls.maxval)
        return v & cls.maxval

    # ---- conversions ---------------------------------------------------------------------
    def __int__(self):
        v = self._v
        return v if type(v) is builtins.int else v.__int__()

    def __index__(self):
        v = self._v
        return v if type(v) is builtins.int else v.__index__()

    def __bool__(self):
        return bool(self._v)

    def __hash__(self):
        return hash(self._v)

    def __float__(self):
        return float(self._v)

    def __trunc__(self):
        return self._v

    def __round__(self, n=0):
        return self._v

    def __str__(self):
        return str(self._v)

    def __repr__(self):
        return "%s(%s)" % (type(self).__name__, self)

    def __format__(self, spec):
        return format(self._v, spec)

    def __deepcopy__(self, memo):
        return self

    def __copy__(self):
        return self

    def __reduce__(self):
        if type(self._v) is not builtins.int:
            raise core.EngineUnsupported("pickling a symbolic fixedint")
        return (_rebuild, (type(self).width, type(self).signed, self._v))

    # ---- slicing ---------------------------------------------------------------------------
    @classmethod
    def _canonicalize_index(cls, idx):
        if idx < 0:
            idx += cls.width
        return idx

    @classmethod
    def _canonicalize_slice(cls, sl):
        start, stop = sl.start, sl.stop
        if sl.step is not None:
            raise ValueError("slice step unsupported")
        start = 0 if start is None else cls._canonicalize_index(start)
        if stop is None:
            stop = cls.width
        elif isinstance(stop, complex):
            if stop.real:
                raise ValueError("invalid slice stop: must be integer or pure-imaginary complex number")
            stop = builtins.int(stop.imag) + start
        else:
            stop = cls._canonicalize_index(stop)
        if 0 <= start < stop <= cls.width:
            return (start, stop)
        raise IndexError("invalid slice %d:%d" % (start, stop))

    def __getitem__(self, item):
        if isinstance(item, slice):
            start, stop = self._canonicalize_slice(item)
            return FixedInt(stop - start, signed=False)(self._v >> start)
        item = self._canonicalize_index(item)
        if 0 <= item < self.width:
            return bool(self._v & (1 << item))
        raise IndexError("index %d out of range" % item)

    # ---- unary -------------------------------------------------------------------------------
    def __neg__(self):
        return type(self)(-self._v)

    def __pos__(self):
        return type(self)(+self._v)

    def __abs__(self):
        return type(self)(abs(self._v))

    def __invert__(self):
        return type(self)(~self._v)

    # ---- comparisons (as inherited from int in the real package) -------------------------------
    def _cmpval(self, o):
        if isinstance(o, FixedIntBase):
            return o._v
        if type(o) in (builtins.int, SymInt, builtins.bool, builtins.float):
            return o
        if isinstance(o, core.LazyBool):
            return builtins.int(o)
        return NotImplemented

    def __eq__(self, o):
        v = self._cmpval(o)
        return NotImplemented if v is NotImplemented else self._v == v

    def __ne__(self, o):
        v = self._cmpval(o)
        return NotImplemented if v is NotImplemented else self._v != v

    def __lt__(self, o):
        v = self._cmpval(o)
        return NotImplemented if v is NotImplemented else self._v < v

    def __le__(self, o):
        v = self._cmpval(o)
        return NotImplemented if v is NotImplemented else self._v <= v

    def __gt__(self, o):
        v = self._cmpval(o)
        return NotImplemented if v is NotImplemented else self._v > v

    def __ge__(self, o):
        v = self._cmpval(o)
        return NotImplemented if v is NotImplemented else self._v >= v

    # ---- non-arithmetic binary operators (inherited from int in the real package) --------------
    def __truediv__(self, o):
        v = self._cmpval(o)
        return NotImplemented if v is NotImplemented else self._v / v

    def __rtruediv__(self, o):
        v = self._cmpval(o)
        return NotImplemented if v is NotImplemented else v / self._v

    def __divmod__(self, o):
        v = self._cmpval(o)
        return NotImplemented if v is NotImplemented else divmod(self._v, v)

    def __rdivmod__(self, o):
        v = self._cmpval(o)
        return NotImplemented if v is NotImplemented else divmod(v, self._v)

    def __rlshift__(self, o):
        v = self._cmpval(o)
        return NotImplemented if v is NotImplemented else v << self._v

    def __rrshift__(self, o):
        v = self._cmpval(o)
        return NotImplemented if v is NotImplemented else v >> self._v

    def __pow__(self, other, modulo=None):
        if modulo is None:
            return type(self)(pow(self._v, _value_of(other)))
        return type(self)(pow(self._v, _value_of(other), modulo))

    def __rpow__(self, other):
        return type(other)(pow(_value_of(other), self._v))

    def to_bytes(self, length=None, byteorder=sys.byteorder):
        if length is None:
            length = (self.width + 7) // 8
        v = self._v
        if type(v) is builtins.int:
            return v.to_bytes(length, byteorder=byteorder, signed=self.signed)
        raise core.EngineUnsupported("fixedint.to_bytes on symbolic value")


def _rebuild(width, signed, v):
    return FixedInt(width, signed)(v)


def _arith_convert(t1, t2):
    if not (isinstance(t2, type) and issubclass(t2, FixedIntBase)):
        return t1
    if t1.signed == t2.signed:
        return t1 if t1.width >= t2.width else t2
    if not t1.signed:
        ut, st = t1, t2
    else:
        ut, st = t2, t1
    return ut if ut.width >= st.width else st


def _binop(name, fn, reflected):
    def _f(self, other):
        try:
            ov = _value_of(other)
        except TypeError:
            return NotImplemented
        nt = _arith_convert(type(self), type(other))
        if reflected:
            return nt(fn(ov, self._v))
        return nt(fn(self._v, ov))

    _f.__name__ = name
    return _f


import operator as _op

_OPS = {
    "add": _op.add,
    "sub": _op.sub,
    "mul": _op.mul,
    "floordiv": _op.floordiv,
    "mod": _op.mod,
    "lshift": _op.lshift,
    "rshift": _op.rshift,
    "and": _op.and_,
    "xor": _op.xor,
    "or": _op.or_,
}
for _n, _fn in _OPS.items():
    setattr(FixedIntBase, "__%s__" % _n, _binop("__%s__" % _n, _fn, False))
for _n in "add sub mul floordiv mod and xor or".split():
    setattr(FixedIntBase, "__r%s__" % _n, _binop("__r%s__" % _n, _OPS[_n], True))


class FixedInt(FixedIntBase):
    __slots__ = ()


class MutableFixedInt(FixedIntBase):
    __slots__ = ()


def build_module():
    m = types.ModuleType("fixedint")
    m.FixedInt = FixedInt
    m.MutableFixedInt = MutableFixedInt
    for w in (8, 16, 32, 64):
        setattr(m, "Int%d" % w, FixedInt(w, True))
        setattr(m, "UInt%d" % w, FixedInt(w, False))
    m.__symx_model__ = True
    m.__version__ = "model-of-0.2.0"
    return m
