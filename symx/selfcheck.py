"""Model validation executed inside every check run (DESIGN.md section 3):
 (i)  the fixedint model against the real fixedint package (differential, boundary operands)
 (ii) every SymInt operator encoding against Python's own integer result, by evaluating the
      constructed z3 term under concrete assignments.
Returns a list of problem strings (empty = validated)."""
from __future__ import annotations

import builtins
import itertools
import operator
import random

import z3


def _bvals(w, signed):
    if signed:
        mn, mx = -(1 << (w - 1)), (1 << (w - 1)) - 1
    else:
        mn, mx = 0, (1 << w) - 1
    vs = {0, 1, 2, 3, 7, 31, 32, 33, mn, mx, mn + 1, mx - 1, mx // 2, mx // 2 + 1, -1, -2, (1 << (w // 2)) - 1, 1 << (w // 2)}
    return sorted(v for v in vs)


def _pick(vs, k, rnd):
    """the extremes plus a seeded selection of the other boundary values"""
    if len(vs) <= k:
        return list(vs)
    core_ = [vs[0], vs[-1]]
    rest = [v for v in vs if v not in core_]
    return core_ + rnd.sample(rest, k - 2)


def check_fixedint(seed=0):
    from . import install

    real = install.REAL_FIXEDINT
    import fixedint as model

    assert getattr(model, "__symx_model__", False)
    problems = []
    n = 0
    specs = [(8, True), (8, False), (16, True), (16, False), (32, True), (32, False), (64, True), (64, False), (12, False)]
    rnd = random.Random(seed)

    def both(w, s):
        return real.FixedInt(w, signed=s), model.FixedInt(w, signed=s)

    def same(a, b, what):
        nonlocal n
        n += 1
        ta, tb = type(a).__name__, type(b).__name__
        if isinstance(a, builtins.bool) or isinstance(b, builtins.bool) or isinstance(a, builtins.float):
            if a != b or ta != tb:
                problems.append("%s: real %r (%s) model %r (%s)" % (what, a, ta, b, tb))
            return
        va = builtins.int(a)
        vb = b._v if getattr(type(b), "_symx_fixedint_model", False) else b
        ma = isinstance(a, real.FixedInt)
        mb = getattr(type(b), "_symx_fixedint_model", False)
        if va != vb or ma != mb or (ma and ta != tb):
            problems.append("%s: real %r (%s) model %r (%s)" % (what, a, ta, b, tb))

    binops = ["add", "sub", "mul", "floordiv", "mod", "and", "or", "xor", "lshift", "rshift", "lt", "le", "eq", "ne", "gt", "ge"]
    for (w1, s1), (w2, s2) in itertools.product(specs, specs):
        R1, M1 = both(w1, s1)
        R2, M2 = both(w2, s2)
        vals1 = _pick(_bvals(w1, s1), 7, rnd) + [rnd.getrandbits(w1 + 3) - (1 << w1)]
        vals2 = _pick(_bvals(w2, s2), 5, rnd) + [rnd.getrandbits(w2 + 3) - (1 << w2)]
        for x, y in itertools.product(vals1, vals2):
            for op in binops:
                f = getattr(operator, op if op not in ("and", "or") else op + "_")
                rx, ry, mx, my = R1(x), R2(y), M1(x), M2(y)
                if op in ("lshift", "rshift"):
                    if not (0 <= builtins.int(ry) < 70):
                        continue
                if op in ("floordiv", "mod") and builtins.int(ry) == 0:
                    continue
                try:
                    a = f(rx, ry)
                except Exception as ex:
                    a = ex
                try:
                    b = f(mx, my)
                except Exception as ex:
                    b = ex
                if isinstance(a, Exception) or isinstance(b, Exception):
                    if type(a) is not type(b):
                        problems.append("%s %s%d %s%d (%d,%d): real %r model %r" % (op, "IU"[not s1], w1, "IU"[not s2], w2, x, y, a, b))
                    continue
                same(a, b, "%s %s%d(%d) %s%d(%d)" % (op, "I" if s1 else "U", w1, x, "I" if s2 else "U", w2, y))
    # fixedint <op> int, int <op> fixedint, unary, slicing, conversions
    for (w, s) in specs:
        Rc, Mc = both(w, s)
        for x in _bvals(w, s) + [rnd.getrandbits(w + 5) - (1 << (w + 1)) for _ in range(4)]:
            rx, mx = Rc(x), Mc(x)
            same(rx, mx, "ctor %d/%s(%d)" % (w, s, x))
            for k in (0, 1, -1, 5, 32, 255, -(1 << 31), (1 << 32) + 3):
                for op in ("add", "sub", "mul", "and", "or", "xor"):
                    f = getattr(operator, op if op not in ("and", "or") else op + "_")
                    same(f(rx, k), f(mx, k), "%s fi,int %d %d" % (op, x, k))
                    same(f(k, rx), f(k, mx), "%s int,fi %d %d" % (op, k, x))
                for op in ("lt", "le", "eq", "ne", "gt", "ge"):
                    f = getattr(operator, op)
                    same(f(rx, k), f(mx, k), "%s fi,int" % op)
                    same(f(k, rx), f(k, mx), "%s int,fi" % op)
                if k > 0:
                    same(rx // k, mx // k, "floordiv fi,int")
                    same(rx % k, mx % k, "mod fi,int")
                if 0 <= k <= 40:
                    same(rx << k, mx << k, "lshift fi,int")
                    same(rx >> k, mx >> k, "rshift fi,int")
            if 0 <= builtins.int(rx) < 40:
                same(5 << rx, 5 << mx, "int<<fi")
                same(-77 >> rx, -77 >> mx, "int>>fi")
            for u in ("neg", "pos", "abs", "invert"):
                f = getattr(operator, u)
                same(f(rx), f(mx), u)
            same(bool(rx), bool(mx), "bool")
            if hash(rx) != hash(mx):
                problems.append("hash %r" % rx)
            if str(rx) != str(mx) or repr(rx) != repr(mx) or format(rx, "X") != format(mx, "X") or format(rx, "08b") != format(mx, "08b"):
                problems.append("text of %r" % rx)
            for sl in (slice(None, 8), slice(None, 16), slice(4, 12), slice(None, w)):
                if sl.stop is not None and sl.stop > w:
                    continue
                same(rx[sl], mx[sl], "slice %r of %r" % (sl, rx))
            same(rx[0], mx[0], "bit0")
            same(Rc(real.Int8(-3)), Mc(model.Int8(-3)), "ctor from fixedint")
            same(Rc(True), Mc(True), "ctor from bool")
            same(Rc(7.9), Mc(7.9), "ctor from float")
        for attr in ("width", "signed", "minval", "maxval", "mutable"):
            if getattr(Rc, attr) != getattr(Mc, attr):
                problems.append("class attribute %s of %s" % (attr, Rc.__name__))
    return problems, n


class _EvalEnv:
    """Decides forks by evaluating the condition under the current concrete assignment."""

    mode = "sym"

    def __init__(self):
        self.sub = []
        self.text = None
        self.text_mode = "placeholder"
        self.notes = {}

    def ev(self, t):
        r = z3.simplify(z3.substitute(t, *self.sub)) if self.sub else z3.simplify(t)
        return r

    def decide(self, c):
        if isinstance(c, bool):
            return c
        return z3.is_true(self.ev(c))

    def concretize(self, x):
        return self.ev(x.t).as_signed_long()


def check_symint(seed=0):
    from . import core
    from .core import SymInt
    from . import ops

    problems = []
    n = 0
    rnd = random.Random(seed)
    e = _EvalEnv()
    core.set_env(e)
    try:
        ranges = [(-128, 127), (0, 255), (0, 2**32 - 1), (-(2**31), 2**31 - 1), (-5, 1000), (0, 31), (-(2**33), 2**33)]

        def mk(name, lo, hi):
            w = core.need_bits(lo, hi)
            return SymInt(z3.BitVec(name, w), lo, hi)

        def pts(lo, hi):
            c = {lo, hi, lo + 1, hi - 1, 0, 1, -1, 2, 31, 32, (lo + hi) // 2, 255, 256, 2**31, 2**31 - 1, -(2**31)}
            c |= {rnd.randint(lo, hi) for _ in range(3)}
            return sorted(v for v in c if lo <= v <= hi)

        def value(r):
            if type(r) is builtins.int or type(r) is builtins.bool:
                return builtins.int(r)
            v = e.ev(r.t)
            if not z3.is_bv_value(v):
                raise AssertionError("term did not evaluate: %s" % v)
            x = v.as_signed_long()
            if not (r.lo <= x <= r.hi):
                raise AssertionError("value %d outside stated interval [%d,%d]" % (x, r.lo, r.hi))
            if r.t.size() != core.need_bits(r.lo, r.hi):
                raise AssertionError("width %d != need_bits(%d,%d)" % (r.t.size(), r.lo, r.hi))
            return x

        def tdiv(a, b):
            q = abs(a) // abs(b)
            return q if (a >= 0) == (b >= 0) else -q

        bin_ops = {
            "add": (operator.add, None),
            "sub": (operator.sub, None),
            "mul": (operator.mul, None),
            "and": (operator.and_, None),
            "or": (operator.or_, None),
            "xor": (operator.xor, None),
            "floordiv": (operator.floordiv, lambda a, b: b != 0),
            "mod": (operator.mod, lambda a, b: b != 0),
            "lshift": (operator.lshift, lambda a, b: 0 <= b <= 64),
            "rshift": (operator.rshift, lambda a, b: 0 <= b),
            "tdiv": (core.truncdiv, lambda a, b: b != 0),
            "trem": (core.truncrem, lambda a, b: b != 0),
            "lt": (operator.lt, None),
            "le": (operator.le, None),
            "eq": (operator.eq, None),
            "ne": (operator.ne, None),
            "ge": (operator.ge, None),
            "gt": (operator.gt, None),
        }
        pyref = dict((k, v[0]) for k, v in bin_ops.items())
        pyref["tdiv"] = tdiv
        pyref["trem"] = lambda a, b: a - tdiv(a, b) * b
        for (la, ha), (lb, hb) in itertools.product(ranges, ranges):
            A, B = mk("a", la, ha), mk("b", lb, hb)
            for name, (f, pre) in bin_ops.items():
                if name in ("lshift",) and hb > 64:
                    continue
                if name == "rshift" and hb > 2**12:
                    continue
                for x, y in itertools.product(_pick(pts(la, ha), 6, rnd), _pick(pts(lb, hb), 5, rnd)):
                    if pre is not None and not pre(x, y):
                        continue
                    e.sub = [(A.t, z3.BitVecVal(x, A.t.size())), (B.t, z3.BitVecVal(y, B.t.size()))]
                    want = pyref[name](x, y)
                    for variant, (p, q) in {"ss": (A, B), "sc": (A, y), "cs": (x, B)}.items():
                        n += 1
                        try:
                            got = value(f(p, q))
                        except ZeroDivisionError:
                            got = "ZeroDivisionError"
                        except Exception as ex:
                            got = "EXC %r" % (ex,)
                        if got != builtins.int(want):
                            problems.append("%s[%s] a=%d in [%d,%d] b=%d in [%d,%d]: encoding %r python %r" % (name, variant, x, la, ha, y, lb, hb, got, want))
        # unary / helpers
        for (la, ha) in ranges:
            A = mk("a", la, ha)
            for x in pts(la, ha):
                e.sub = [(A.t, z3.BitVecVal(x, A.t.size()))]
                tests = {
                    "neg": (-A, -x),
                    "invert": (~A, ~x),
                    "abs": (abs(A), abs(x)),
                    "zx32": (ops.zx(A, 32), x & 0xFFFFFFFF),
                    "zx5": (ops.zx(A, 5), x & 31),
                    "sx32": (ops.sx(A, 32), ((x & 0xFFFFFFFF) ^ 0x80000000) - 0x80000000),
                    "sx8": (ops.sx(A, 8), ((x & 0xFF) ^ 0x80) - 0x80),
                    "sx12": (ops.sx(A, 12), ((x & 0xFFF) ^ 0x800) - 0x800),
                    "mask-odd": (A & 0x0FF0, x & 0x0FF0),
                    "and-neg": (A & ~0xFF00, x & ~0xFF00),
                    "shl3": (A << 3, x << 3),
                    "shr3": (A >> 3, x >> 3),
                    "shr40": (A >> 40, x >> 40),
                    "mod4": (A % 4, x % 4),
                    "div4": (A // 4, x // 4),
                    "mod2p32": (A % (2**32), x % (2**32)),
                    "bool": (bool(A), bool(x)),
                    "ite": (ops.ite(A.t > 0, A, 7), x if x > 0 else 7),
                }
                for k, (got, want) in tests.items():
                    n += 1
                    try:
                        g = value(got)
                    except Exception as ex:
                        g = "EXC %r" % (ex,)
                    if g != builtins.int(want):
                        problems.append("%s a=%d in [%d,%d]: encoding %r python %r" % (k, x, la, ha, g, want))
    finally:
        core.set_env(None)
    return problems, n


def run(seed=0):
    p1, n1 = check_fixedint(seed)
    p2, n2 = check_symint(seed)
    return {"fixedint_comparisons": n1, "symint_evaluations": n2, "problems": (p1 + p2)[:40], "nproblems": len(p1) + len(p2)}
