"""Check runner: distributes the jobs of a check module over worker processes (each one running
the real repository code under symx), validates sampled paths and every counterexample against
the concrete oracle, writes the evidence file and sets the exit code.

exit 0  property held on everything explored (KNOWN-FINDING lines allowed)
exit 1  VIOLATION property=<id> replay=<path>   (counterexample reproduced on the real code)
exit 2  inconclusive / harness error (solver unknown, unsupported construct, encoding mismatch,
        canary not failing, mandatory bound not explored)
"""
from __future__ import annotations

import argparse
import hashlib
import importlib
import json
import multiprocessing as mp
import os
import subprocess
import sys
import time
import traceback

VERIF = os.path.dirname(os.path.dirname(os.path.abspath(__file__)))
PY = os.path.join(VERIF, ".venv", "bin", "python")

_CONC = None


def _conc_proc():
    global _CONC
    if _CONC is None or _CONC.poll() is not None:
        env = dict(os.environ)
        env["PYTHONPATH"] = VERIF
        _CONC = subprocess.Popen(
            [sys.executable, "-m", "symx.concworker"],
            stdin=subprocess.PIPE,
            stdout=subprocess.PIPE,
            stderr=subprocess.DEVNULL,
            cwd=VERIF,
            env=env,
            text=True,
            bufsize=1,
        )
    return _CONC


def conc_run(module, harness, args, model):
    p = _conc_proc()
    p.stdin.write(json.dumps({"module": module, "harness": harness, "args": args, "model": model}) + "\n")
    p.stdin.flush()
    line = p.stdout.readline()
    if not line:
        return {"ok": False, "error": "concrete oracle died"}
    return json.loads(line)


def _worker_init():
    sys.path.insert(0, VERIF)
    from symx import install

    install.install(symbolic=True)


def _profile_functions(h, args):
    return []


def run_job(job):
    t0 = time.time()
    out = {
        "label": job["label"],
        "paths": 0,
        "ok": 0,
        "pruned": 0,
        "cut": 0,
        "vcs": 0,
        "vc_ok": 0,
        "problems": [],
        "failures": [],
        "canaries": {},
        "validated": 0,
        "samples": [],
        "functions": [],
        "solver_time": 0.0,
        "queries": 0,
        "decisions": 0,
        "optional": job.get("optional", False),
    }
    import signal

    class JobWall(BaseException):
        pass

    def _alarm(signum, frame):
        raise JobWall()

    hard = int(float(os.environ.get("VERIF_JOB_HARD_WALL", job.get("hard_wall_s", 900))))
    try:
        signal.signal(signal.SIGALRM, _alarm)
        signal.alarm(hard)
    except (ValueError, OSError):
        pass
    try:
        from symx.core import Engine
        import symx.core as core

        if job.get("special") in ("selfcheck_fixedint", "selfcheck_symint"):
            from symx import selfcheck

            f = selfcheck.check_fixedint if job["special"] == "selfcheck_fixedint" else selfcheck.check_symint
            probs, n = f(job.get("seed", 0))
            out["model_points"] = n
            for p in probs[:10]:
                out["problems"].append({"kind": "model-validation", "error": p})
            out["wall"] = time.time() - t0
            return out
        mod = importlib.import_module(job["module"])
        h = mod.HARNESSES[job["harness"]]
        args = job.get("args", {})
        eng = Engine(
            timeout_ms=job.get("timeout_ms", 30000),
            max_paths=job.get("max_paths", 100000),
            want_models=job.get("validate_every", 1),
        )
        eng.cut_on_undecided = bool(job.get("cut_on_undecided", False))
        eng.xcheck_every = int(job.get("xcheck_every", 0))
        eng.xcheck_ms = int(job.get("xcheck_ms", 5000))
        if job.get("optional"):
            eng.max_wall_s = float(os.environ.get("VERIF_JOB_WALL", job.get("max_wall_s", 300)))  # only best-effort jobs may stop early (reported as incomplete)
        funcs = set()
        state = {"first": True}

        repo_root = os.path.realpath(os.environ.get("VERIF_REPO", "/repo"))

        def prof(frame, event, arg):
            if event == "call":
                co = frame.f_code
                fn = co.co_filename
                if fn.startswith(repo_root) and "architecture_simulator" in fn:
                    funcs.add(fn[len(repo_root) + 1 :].replace("/", ".")[:-3] + ":" + co.co_qualname)

        def harness(e, **kw):
            if state["first"]:
                state["first"] = False
                sys.setprofile(prof)
                try:
                    return h(e, **kw)
                finally:
                    sys.setprofile(None)
            return h(e, **kw)

        deadline = job.get("deadline")
        results = eng.explore(harness, **args)
        out["paths"] = len(results)
        nund = sum(1 for r in results if r.status == "cutoff" and "undecided" in (r.error or ""))
        if nund > max(2, 0.02 * len(results)):
            out["problems"].append({"kind": "too-many-undecided-branches", "error": "%d of %d paths cut because a feasibility query timed out" % (nund, len(results))})
        out["functions"] = sorted(funcs)
        out["solver_time"] = eng.solver_time
        out["queries"] = eng.queries
        out["xcheck"] = eng.xstats
        out["solver_rebuilds"] = eng.rebuilds
        out["sat_not_confirmed"] = eng.sat_not_confirmed
        for d in eng.xstats["disagree"][:5]:
            out["problems"].append({"kind": "solver-disagreement", "error": d})
        for d in eng.xstats["errors"][:5]:
            out["problems"].append({"kind": "second-solver-error", "error": d})
        nfail = {}
        for r in results:
            out["decisions"] += len(r.trace or [])
            if r.status == "pruned":
                out["pruned"] += 1
                continue
            if r.status == "cutoff":
                out["cut"] += 1
                out.setdefault("cut_reasons", {})
                out["cut_reasons"][r.error] = out["cut_reasons"].get(r.error, 0) + 1
                continue
            if r.status != "ok":
                out["problems"].append({"kind": r.status, "error": (r.error or "")[-1500:], "trace": _tr(r.trace)})
                continue
            if r.cut:
                out["cut"] += 1
            out["ok"] += 1
            for label, status, info in r.claims:
                if label.startswith("canary:"):
                    c = out["canaries"].setdefault(label, 0)
                    if status == "fail":
                        out["canaries"][label] = c + 1
                    continue
                out["vcs"] += 1
                if status == "ok":
                    out["vc_ok"] += 1
                elif status == "unknown":
                    out["problems"].append({"kind": "vc-unknown", "error": "%s: %s" % (label, info), "trace": _tr(r.trace)})
                else:
                    n = nfail.get(label, 0)
                    nfail[label] = n + 1
                    if n < 3:
                        conf = conc_run(job["module"], job["harness"], args, info)
                        cc = conf.get("claims", []) or []
                        confirmed = any(l == label and s == "fail" for l, s, _ in cc)
                        if not confirmed and not any(l == label for l, _, _ in cc):
                            # the concrete twin words this claim differently: any claim failing on
                            # the real code under the counterexample's inputs confirms it
                            confirmed = any(s == "fail" and not l.startswith("canary:") for l, s, _ in cc)
                        out["failures"].append(
                            {
                                "claim": label,
                                "model": info,
                                "confirmed": bool(confirmed),
                                "conc": {k: conf.get(k) for k in ("ok", "error", "claims", "cut")},
                                "key": _classify(mod, job, label, info),
                            }
                        )
                    else:
                        out["failures"].append({"claim": label, "model": None, "confirmed": None, "key": _classify(mod, job, label, info), "more": True})
            if r.model is not None and job.get("validate", True):
                conf = conc_run(job["module"], job["harness"], args, r.model)
                want = r.observations
                got = conf.get("observations")
                bad = None
                if not conf.get("ok"):
                    bad = "concrete run failed: %s" % conf.get("error")
                elif conf.get("pruned"):
                    bad = "concrete run pruned by an assumption the model should satisfy"
                elif json.loads(json.dumps(want)) != got:
                    bad = "observations differ: sym=%s conc=%s" % (json.dumps(want)[:600], json.dumps(got)[:600])
                else:
                    symc = {l: s for l, s, _ in r.claims if not l.startswith("canary:")}
                    for l, s, _ in conf.get("claims", []):
                        if l.startswith("canary:"):
                            continue
                        if s == "fail" and symc.get(l) == "ok":
                            bad = "claim %s fails concretely but its VC was discharged" % l
                if bad:
                    out["problems"].append({"kind": "encoding-mismatch", "error": bad, "model": r.model, "trace": _tr(r.trace)})
                else:
                    out["validated"] += 1
                if len(out["samples"]) < 2:
                    out["samples"].append({"inputs": r.model.get("inputs"), "trace": _tr(r.trace), "observations": want})
    except JobWall:
        out["problems"].append({"kind": "job-wall-limit", "error": "job still running after %d s (hard per-job limit): stopped, nothing it explored is counted" % hard})
    except BaseException as ex:  # noqa
        out["problems"].append({"kind": "job-crash", "error": "".join(traceback.format_exception(type(ex), ex, ex.__traceback__)[-8:])})
    finally:
        try:
            signal.alarm(0)
        except (ValueError, OSError):
            pass
    out["wall"] = time.time() - t0
    return out


def _tr(trace):
    if not trace:
        return []
    return [[k, v] for k, v in trace][:80]


def _classify(mod, job, label, model):
    f = getattr(mod, "classify", None)
    if f is not None:
        try:
            k = f(job, label, model)
            if k:
                return k
        except Exception:
            pass
    return "%s:%s:%s" % (mod.PROPERTY, job["label"], label)


def load_known():
    p = os.path.join(VERIF, "known_findings.json")
    if not os.path.exists(p):
        return []
    with open(p) as f:
        d = json.load(f)
    return d.get("findings", [])


def replay(mod, path):
    sys.path.insert(0, VERIF)
    from symx import install

    install.install(symbolic=False)
    from symx import concworker

    with open(path) as f:
        rp = json.load(f)
    resp = concworker.run_one({"module": rp["module"], "harness": rp["harness"], "args": rp["args"], "model": rp["model"]})
    bad = [c for c in resp.get("claims", []) if c[1] == "fail" and not c[0].startswith("canary:")]
    print(json.dumps({"claims": resp.get("claims"), "error": resp.get("error"), "observations": resp.get("observations")}, indent=1)[:6000])
    if bad:
        print("REPLAY: violated claims: " + ", ".join(c[0] for c in bad))
        return 1
    print("REPLAY: no claim violated")
    return 0


def main(mod):
    ap = argparse.ArgumentParser()
    ap.add_argument("--tier", default=os.environ.get("VERIF_TIER", "quick"), choices=["quick", "thorough"])
    ap.add_argument("--replay")
    ap.add_argument("--procs", type=int, default=int(os.environ.get("VERIF_PROCS", "16")))
    ap.add_argument("--only")
    ap.add_argument("--budget", type=float, default=None, help="wall seconds after which optional jobs are no longer started")
    ap.add_argument("--no-evidence", action="store_true")
    a = ap.parse_args()
    if a.replay:
        sys.exit(replay(mod, a.replay))
    seed = int(os.environ.get("VERIF_SEED", "0") or 0)
    t0 = time.time()
    pid = mod.PROPERTY
    jobs = mod.jobs(a.tier, seed)
    # second solver (cvc5 binary): every k-th VC of every job is exported and re-decided
    xk = int(os.environ.get("VERIF_XCHECK", getattr(mod, "XCHECK", {"quick": 400, "thorough": 50}).get(a.tier, 0)))
    xms = int(os.environ.get("VERIF_XCHECK_MS", "4000" if a.tier == "quick" else "20000"))
    for j in jobs:
        j.setdefault("module", mod.__name__)
        j.setdefault("xcheck_every", xk)
        j.setdefault("hard_wall_s", 900 if a.tier == "quick" else 3600)
        j.setdefault("xcheck_ms", xms)
    if a.only:
        jobs = [j for j in jobs if any(p_ in j["label"] for p_ in a.only.split("|"))]
    elif not getattr(mod, "NO_SELFCHECK", False):
        jobs.append({"label": "selfcheck:fixedint-model", "special": "selfcheck_fixedint", "seed": seed, "cost": 1000, "module": "symx.selfcheck", "harness": "-"})
        jobs.append({"label": "selfcheck:symint-encodings", "special": "selfcheck_symint", "seed": seed, "cost": 999, "module": "symx.selfcheck", "harness": "-"})
    jobs.sort(key=lambda j: -j.get("cost", 1))
    budget = a.budget if a.budget is not None else getattr(mod, "BUDGET", {}).get(a.tier)
    results = []
    skipped = []
    ctx = mp.get_context("fork")
    nproc = max(1, min(a.procs, len(jobs)))
    import signal

    with ctx.Pool(nproc, initializer=_worker_init, maxtasksperchild=getattr(mod, "MAXTASKS", 50)) as pool:

        def _term(signum, frame):
            pool.terminate()
            os._exit(143)

        signal.signal(signal.SIGTERM, _term)
        pending = []
        it = iter(jobs)
        # submit lazily so that the budget can stop optional jobs
        active = []
        done_submitting = False
        while True:
            while not done_submitting and len(active) < nproc * 2:
                try:
                    j = next(it)
                except StopIteration:
                    done_submitting = True
                    break
                if budget is not None and j.get("optional") and time.time() - t0 > budget:
                    skipped.append(j["label"])
                    continue
                active.append((j, pool.apply_async(run_job, (j,))))
            if not active:
                break
            still = []
            for j, ar in active:
                if ar.ready():
                    try:
                        results.append(ar.get())
                        if os.environ.get("VERIF_PROGRESS"):
                            rr = results[-1]
                            print("  [%6.0fs] %s: %d paths %.0fs %s" % (time.time() - t0, rr["label"], rr.get("paths", 0), rr.get("wall", 0), "PROBLEM" if rr.get("problems") or rr.get("failures") else ""), flush=True)
                    except Exception as ex:
                        results.append({"label": j["label"], "problems": [{"kind": "job-crash", "error": repr(ex)}], "paths": 0, "ok": 0, "vcs": 0, "vc_ok": 0, "failures": [], "canaries": {}, "validated": 0, "samples": [], "functions": [], "solver_time": 0, "queries": 0, "decisions": 0, "pruned": 0, "cut": 0, "wall": 0, "optional": j.get("optional", False)})
                else:
                    still.append((j, ar))
            active = still
            time.sleep(0.05)
    finish(mod, a, seed, t0, jobs, results, skipped)


def finish(mod, a, seed, t0, jobs, results, skipped):
    pid = mod.PROPERTY
    known = {k["key"]: k for k in load_known() if k.get("property") == pid}
    problems = []
    undecided_optional = []
    violations = []
    known_hits = {}
    unconfirmed = []
    canary_total = {}
    funcs = set()
    tot = {k: 0 for k in ("paths", "ok", "pruned", "cut", "vcs", "vc_ok", "validated", "queries", "decisions", "model_points", "solver_rebuilds", "sat_not_confirmed")}
    solver_time = 0.0
    samples = []
    xc = {"submitted": 0, "agree": 0, "no_answer": 0, "time_s": 0.0}
    for r in results:
        for k in xc:
            xc[k] += (r.get("xcheck") or {}).get(k, 0)
        for k in tot:
            tot[k] += r.get(k, 0)
        solver_time += r.get("solver_time", 0)
        funcs.update(r.get("functions", []))
        for p in r.get("problems", []):
            if r.get("optional") and p.get("kind") in ("unknown", "vc-unknown", "too-many-undecided-branches"):
                # a best-effort job the solver did not decide: reported, never counted as explored
                undecided_optional.append(dict(p, job=r["label"]))
                continue
            problems.append(dict(p, job=r["label"]))
        for c, n in r.get("canaries", {}).items():
            if r.get("optional") and n == 0:
                continue  # a best-effort job may stop before its canaries are reached
            canary_total[(r["label"], c)] = n
        for f in r.get("failures", []):
            key = f.get("key")
            if key in known:
                known_hits[key] = known[key]
                continue
            if f.get("confirmed"):
                violations.append(dict(f, job=r["label"]))
            elif f.get("confirmed") is False:
                unconfirmed.append(dict(f, job=r["label"]))
            else:
                violations.append(dict(f, job=r["label"]))
        if len(samples) < 6:
            for s in r.get("samples", [])[:1]:
                samples.append(dict(s, job=r["label"]))
    dead_canaries = [k for k, n in canary_total.items() if n == 0]
    rc = 0
    lines = []
    os.makedirs(os.path.join(VERIF, "replays"), exist_ok=True)
    jobmap = {j["label"]: j for j in jobs}
    seen_v = set()
    for v in violations:
        if v.get("model") is None:
            continue
        if (v["job"], v["claim"]) in seen_v:
            continue
        seen_v.add((v["job"], v["claim"]))
        j = jobmap[v["job"]]
        rp = {"property": pid, "module": j["module"], "harness": j["harness"], "args": j.get("args", {}), "claim": v["claim"], "key": v.get("key"), "model": v["model"], "concrete_result": v.get("conc")}
        h = hashlib.sha1(json.dumps(rp, sort_keys=True).encode()).hexdigest()[:10]
        path = os.path.join(VERIF, "replays", "%s-%s.json" % (pid, h))
        with open(path, "w") as fh:
            json.dump(rp, fh, indent=1)
        lines.append("VIOLATION property=%s replay=%s" % (pid, path))
        lines.append("  claim=%s job=%s key=%s" % (v["claim"], v["job"], v.get("key")))
        rc = 1
    for key, k in known_hits.items():
        lines.append("KNOWN-FINDING: property=%s %s" % (pid, k.get("what", key)))
    inconclusive = []
    if problems:
        inconclusive.append("%d problem(s): %s" % (len(problems), "; ".join(sorted({p["kind"] + "@" + p["job"] for p in problems})[:12])))
    if unconfirmed:
        inconclusive.append("%d counterexample(s) did not reproduce on the real code (encoding error): %s" % (len(unconfirmed), ", ".join(sorted({u["job"] + "/" + u["claim"] for u in unconfirmed})[:8])))
    if dead_canaries:
        inconclusive.append("canary claims that never failed: %s" % dead_canaries[:8])
    mandatory_missing = [j["label"] for j in jobs if not j.get("optional") and j["label"] not in {r["label"] for r in results}]
    if mandatory_missing:
        inconclusive.append("mandatory jobs not run: %s" % mandatory_missing[:8])
    if rc == 0 and inconclusive:
        rc = 2
    wall = time.time() - t0
    if os.environ.get("VERIF_DUMP"):
        with open(os.environ["VERIF_DUMP"], "w") as fh:
            json.dump({"problems": problems, "unconfirmed": unconfirmed}, fh, indent=1, default=str)
    for l in lines:
        print(l)
    for l in inconclusive:
        print("INCONCLUSIVE: " + l)
    if undecided_optional:
        print("UNDECIDED best-effort jobs (not counted as explored): %s" % "; ".join(sorted({p["kind"] + "@" + p["job"] for p in undecided_optional})[:12]))
    for p in problems[:5]:
        print("  problem %s in %s: %s" % (p["kind"], p["job"], (p.get("error") or "")[-800:]))
    for u in unconfirmed[:3]:
        print("  unconfirmed cex %s/%s conc=%s" % (u["job"], u["claim"], json.dumps(u.get("conc"))[:800]))
        print("    model=%s" % json.dumps({k: v for k, v in (u.get("model") or {}).items() if k in ("inputs", "trace", "info")})[:1500])
    print(
        "%s %s: jobs=%d paths=%d (ok %d, pruned %d, cut %d) VCs=%d discharged=%d validated=%d solver=%.1fs cvc5=%d/%d wall=%.1fs -> exit %d"
        % (pid, a.tier, len(results), tot["paths"], tot["ok"], tot["pruned"], tot["cut"], tot["vcs"], tot["vc_ok"], tot["validated"], solver_time, xc["agree"], xc["submitted"], wall, rc)
    )
    slow = sorted(results, key=lambda r: -r.get("wall", 0))[:5]
    print("  slowest jobs: " + ", ".join("%s %.0fs/%dp" % (r["label"], r.get("wall", 0), r.get("paths", 0)) for r in slow))
    cuts = {}
    for r in results:
        for k, n in r.get("cut_reasons", {}).items():
            cuts[k] = cuts.get(k, 0) + n
    if cuts:
        print("  cut paths: %s" % cuts)
    if not a.no_evidence and not a.only:
        ev = {
            "property_id": pid,
            "tier": a.tier,
            "seed": seed,
            "level": getattr(mod, "LEVEL", "model_checking"),
            "wall_s": round(wall, 2),
            "violations": len([1 for l in lines if l.startswith("VIOLATION")]),
            "assumptions": list(getattr(mod, "ASSUMPTIONS", [])),
            "coverage": {
                "states": tot["paths"],
                "transitions": tot["decisions"],
                "traces_validated_against_impl": tot["validated"],
                "samples": samples or [{"note": "no sampled model"}],
                "evaluations": tot["paths"],
                "distinct_nontrivial": tot["ok"],
                "rule": getattr(mod, "RULE", "one case = one feasible path of the real code under the symbolic harness (distinct decision sequences); non-trivial = reached at least one verification condition"),
                "obligations": tot["vcs"],
                "discharged": tot["vc_ok"],
                "checker_cmd": "z3 %s (in-process, QF_UFBV), per-path incremental" % _z3v(),
                "trusted_base": list(getattr(mod, "TRUSTED", [])),
                "explanation": getattr(mod, "EXPLANATION", ""),
                "exhaustive": False,
                "technique": "symbolic execution of the real repository code (symx) + SMT (z3)",
                "functions_encoded": sorted(funcs),
                "bounds": getattr(mod, "bounds", lambda t: {})(a.tier),
                "jobs": len(results),
                "jobs_skipped_optional": skipped,
                "paths_pruned": tot["pruned"],
                "paths_cut_by_bound": tot["cut"],
                "solver_queries": tot["queries"],
                "solver_time_s": round(solver_time, 2),
                "incremental_solver_rebuilt_after_timeout": tot["solver_rebuilds"],
                "incremental_sat_verdicts_refuted_by_fresh_solver": tot["sat_not_confirmed"],
                "second_solver": {
                    "solver": "cvc5 binary (SMT-LIB2 export of the VC: path condition and negated claim)",
                    "vcs_submitted": xc["submitted"],
                    "same_verdict": xc["agree"],
                    "no_answer_within_limit": xc["no_answer"],
                    "different_verdict": len([p for p in problems if p["kind"] == "solver-disagreement"]),
                    "time_s": round(xc["time_s"], 1),
                },
                "solver_unknown": len([p for p in problems if p["kind"] in ("unknown", "vc-unknown")]),
                "best_effort_jobs_undecided": sorted({p["kind"] + "@" + p["job"] for p in undecided_optional})[:60],
                "canaries": {"%s/%s" % k: n for k, n in list(canary_total.items())[:40]},
                "canaries_total": len(canary_total),
                "model_validation_points": tot["model_points"],
                "known_findings_hit": sorted(known_hits),
                "inconclusive": inconclusive,
                "exit_code": rc,
            },
        }
        os.makedirs(os.path.join(VERIF, "evidence"), exist_ok=True)
        with open(os.path.join(VERIF, "evidence", pid + ".json"), "w") as fh:
            json.dump(ev, fh, indent=1, sort_keys=True)
    sys.exit(rc)


def _z3v():
    try:
        import z3

        return z3.get_version_string()
    except Exception:
        return "?"
