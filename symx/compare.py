"""Structural equality of (possibly symbolic) Python values as one z3 formula, evaluation of
symbolic values under a model, and normalisation of concrete values for comparison."""
from __future__ import annotations

import builtins
import dataclasses
import enum

import z3

from . import core
from .core import SymInt, LazyBool, need_bits
from . import text as _text


def _fi(x):
    return getattr(type(x), "_symx_fixedint_model", False)


def _num(x):
    """-> (kind, payload) for numeric-like values, else None"""
    if _fi(x):
        x = x._v
    tx = type(x)
    if tx is SymInt or tx is builtins.int:
        return x
    if tx is builtins.bool:
        return builtins.int(x)
    if tx is LazyBool:
        return x
    return None


def as_term(x, w):
    if type(x) is builtins.int:
        return z3.BitVecVal(x, w)
    return core.sext(x.t, w)


def int_eq(a, b):
    if type(a) is builtins.int and type(b) is builtins.int:
        return a == b
    la, ha = (a, a) if type(a) is builtins.int else (a.lo, a.hi)
    lb, hb = (b, b) if type(b) is builtins.int else (b.lo, b.hi)
    if ha < lb or hb < la:
        return False
    w = max(need_bits(la, ha), need_bits(lb, hb))
    return as_term(a, w) == as_term(b, w)


def _and(cs):
    out = []
    for c in cs:
        if c is True:
            continue
        if c is False:
            return False
        out.append(c)
    if not out:
        return True
    if len(out) == 1:
        return out[0]
    return z3.And(*out)


def sym_eq(a, b):
    """z3 Bool (or Python bool) stating that a and b are structurally equal."""
    if a is b and not isinstance(a, (LazyBool,)):
        return True
    if a is None or b is None:
        return a is None and b is None
    na, nb = _num(a), _num(b)
    if na is not None or nb is not None:
        if na is None or nb is None:
            return False
        if isinstance(na, LazyBool) or isinstance(nb, LazyBool):
            ta = na.c if isinstance(na, LazyBool) else (z3.BoolVal(bool(na)) if type(na) is builtins.int else na.t != 0)
            tb = nb.c if isinstance(nb, LazyBool) else (z3.BoolVal(bool(nb)) if type(nb) is builtins.int else nb.t != 0)
            return ta == tb
        return int_eq(na, nb)
    if isinstance(a, str) and isinstance(b, str):
        return text_eq(a, b)
    if isinstance(a, (list, tuple)) and isinstance(b, (list, tuple)):
        if len(a) != len(b):
            return False
        return _and([sym_eq(x, y) for x, y in zip(a, b)])
    if isinstance(a, dict) and isinstance(b, dict):
        if set(a.keys()) != set(b.keys()):
            return False
        return _and([sym_eq(a[k], b[k]) for k in a])
    if isinstance(a, enum.Enum) or isinstance(b, enum.Enum):
        return a is b
    if isinstance(a, type) or isinstance(b, type):
        return a is b
    if isinstance(a, z3.ExprRef) and isinstance(b, z3.ExprRef):
        return a == b
    if isinstance(a, float) and isinstance(b, float):
        return a == b
    raise TypeError("sym_eq: cannot compare %r with %r" % (type(a).__name__, type(b).__name__))


def text_eq(a: str, b: str):
    if a == b:
        return True
    if not (_text.has_placeholder(a) or _text.has_placeholder(b)):
        return a == b
    ta, tb = _text.decode(a), _text.decode(b)
    if len(ta) != len(tb):
        return False
    cs = []
    for x, y in zip(ta, tb):
        if x[0] != y[0]:
            if {x[0], y[0]} == {"lit", "unit"}:
                u, l = (x, y) if x[0] == "unit" else (y, x)
                if u[1] == "chr":
                    cs.append(int_eq(u[2], ord(l[1])))
                    continue
                digs = _text._DIG[u[1]]
                if l[1] not in digs:
                    return False
                cs.append(int_eq(u[2], digs.index(l[1])))
                continue
            return False
        if x[0] == "lit":
            if x[1] != y[1]:
                return False
        elif x[0] == "span":
            if x[1] != y[1]:
                return False
            cs.append(sym_eq(x[2], y[2]))
        else:
            if x[1] != y[1]:
                return False
            cs.append(sym_eq(x[2], y[2]))
    return _and(cs)


# ---- evaluation under a model ---------------------------------------------------------------


def concretise(v, m, e=None):
    """Symbolic value -> plain Python value under z3 model m."""
    if _fi(v):
        v = v._v
    tv = type(v)
    if tv is SymInt:
        return m.eval(v.t, model_completion=True).as_signed_long()
    if tv is LazyBool:
        if v._v is not None:
            return v._v
        return bool(z3.is_true(m.eval(v.c, model_completion=True)))
    if tv is builtins.int or tv is builtins.bool or v is None or tv is float:
        return v
    if tv is str:
        if _text.has_placeholder(v):
            return _text.render_concrete(v, lambda x: concretise(x, m, e))
        return v
    if isinstance(v, (list, tuple)):
        return [concretise(x, m, e) for x in v]
    if isinstance(v, dict):
        return {k: concretise(x, m, e) for k, x in v.items()}
    if isinstance(v, z3.ExprRef):
        r = m.eval(v, model_completion=True)
        if z3.is_bool(r):
            return bool(z3.is_true(r))
        return r.as_long()
    if isinstance(v, enum.Enum):
        return v.name
    if isinstance(v, type):
        return v.__name__
    raise TypeError("concretise: %r" % tv.__name__)


def plain(v):
    """Concrete value -> JSON-like plain value (real fixedint -> int, tuples -> lists)."""
    if v is None or isinstance(v, (bool, str, float)):
        return v
    if isinstance(v, builtins.int):
        return builtins.int(v)
    if isinstance(v, (list, tuple)):
        return [plain(x) for x in v]
    if isinstance(v, dict):
        return {k: plain(x) for k, x in v.items()}
    if isinstance(v, enum.Enum):
        return v.name
    if isinstance(v, type):
        return v.__name__
    raise TypeError("plain: %r" % type(v).__name__)


def conc_eq(a, b) -> bool:
    return plain(a) == plain(b)
