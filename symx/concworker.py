"""Concrete oracle: a clean interpreter (real fixedint, untouched builtins) that runs a harness of
a check module on the concrete inputs of a model and reports observations and claim verdicts.
Protocol: one JSON request per line on stdin, one JSON response per line on stdout."""
from __future__ import annotations

import importlib
import json
import sys
import traceback


def run_one(req):
    from symx import core
    from symx.compare import plain

    mod = importlib.import_module(req["module"])
    h = mod.HARNESSES[req["harness"]]
    e = core.ConcEnv(req["model"])
    out = {"ok": True, "error": None}
    try:
        h(e, **req.get("args", {}))
    except core.PathPruned:
        out["pruned"] = True
    except core.EngineSignal as ex:
        out["ok"] = False
        out["error"] = "engine signal in concrete run: %r" % (ex,)
    except Exception as ex:
        out["ok"] = False
        out["error"] = "".join(traceback.format_exception(type(ex), ex, ex.__traceback__)[-8:])
    out["observations"] = e.observations
    out["claims"] = [[l, s, plain_info(i)] for (l, s, i) in e.claims]
    out["cut"] = e.cut
    out["notes"] = {k: str(v) for k, v in e.notes.items()}
    return out


def plain_info(i):
    try:
        json.dumps(i)
        return i
    except Exception:
        return repr(i)


def main():
    sys.path.insert(0, "/verif")
    from symx import install

    install.install(symbolic=False)
    out = sys.stdout
    sys.stdout = sys.stderr  # stray prints from harnesses must not corrupt the protocol
    for line in sys.stdin:
        line = line.strip()
        if not line:
            continue
        try:
            req = json.loads(line)
            resp = run_one(req)
        except Exception as ex:
            resp = {"ok": False, "error": "".join(traceback.format_exception(type(ex), ex, ex.__traceback__)[-8:])}
        out.write(json.dumps(resp) + "\n")
        out.flush()


if __name__ == "__main__":
    main()
